//! harness family c18: the three language servers under arbitrary notification histories, settings
//! (answers to `workspace/configuration`) and analysis-thread schedules.
//!
//! The server binaries are built from the working tree (`A2KIT_REPO`, default `/repo`) with
//! `--cfg a2kit_verif` into `./c18-target` and driven over stdio with LSP.  If the verification
//! hooks are compiled in (the server writes `A2KIT_VERIF_LOG`: event lines on its stderr), every case additionally yields an
//! event trace that is replayed through the Lean model (`c18 trace …`, `Srv.stepC`); otherwise the family runs in
//! black-box mode (oracles on the LSP traffic only) and says so in the `D` counters.
//!
//! References for "what analysing the final text alone produces": a NEW analyzer in this process with the
//! settings the client sent last (`inproc_diags`) and a fresh server process given the same settings.
//!
//! Case streams: `hist` (generated histories, idx 0..), `fixed` (hand-made schedules, idx 9000 + 20·server ..),
//! `workspace` (Merlin documents in an on-disk workspace folder, idx 9100..), `odd` (robustness: broken/odd
//! documents, idx 20000..).
use crate::util::*;
use a2kit::lang::server::Analysis;
use std::collections::{BTreeMap, HashMap, HashSet};
use std::io::{BufRead, BufReader, Read, Write};
use std::process::{Child, ChildStdin, Command, Stdio};
use std::sync::{Arc, Mutex};
use std::time::{Duration, Instant};

#[derive(Clone, Copy, PartialEq, Eq, Debug)]
enum Lang { Applesoft, Integer, Merlin }

impl Lang {
    fn all() -> [Lang; 3] { [Lang::Applesoft, Lang::Integer, Lang::Merlin] }
    fn exe(self) -> &'static str { match self { Lang::Applesoft => "server-applesoft", Lang::Integer => "server-integerbasic", Lang::Merlin => "server-merlin" } }
    fn name(self) -> &'static str { match self { Lang::Applesoft => "applesoft", Lang::Integer => "integerbasic", Lang::Merlin => "merlin" } }
    fn ext(self) -> &'static str { match self { Lang::Applesoft => "bas", Lang::Integer => "ibas", Lang::Merlin => "S" } }
    fn idx(self) -> usize { match self { Lang::Applesoft => 0, Lang::Integer => 1, Lang::Merlin => 2 } }
}

/// Cases 9100..9199 (Merlin) live in a workspace folder on disk: `<cwd>/c18-ws/k<idx>/DOC<d>.S`; all other
/// cases use uris that exist nowhere, so the server's workspace is empty.
fn ws_dir(case: usize) -> Option<std::path::PathBuf> {
    if (9100..9200).contains(&case) { std::env::current_dir().ok().map(|c| c.join("c18-ws").join(format!("k{}", case))) } else { None }
}
fn ws_folder_uri(case: usize) -> Option<String> {
    ws_dir(case).and_then(|d| lsp_types::Url::from_directory_path(d).ok()).map(|u| u.to_string())
}
fn uri_of(lang: Lang, case: usize, d: usize) -> String {
    match ws_dir(case) {
        Some(dir) => lsp_types::Url::from_file_path(dir.join(format!("DOC{}.S", d))).map(|u| u.to_string()).unwrap_or_else(|_| format!("file:///c18/k{}/doc{}.S", case, d)),
        None => format!("file:///c18/k{}/doc{}.{}", case, d, lang.ext()),
    }
}

// ------------------------------------------------------------------------------------------------
// LSP client
// ------------------------------------------------------------------------------------------------

struct Client {
    child: Child,
    stdin: Option<ChildStdin>,
    msgs: Arc<Mutex<Vec<(u64, json::JsonValue)>>>,
    stderr: Arc<Mutex<String>>,
    t0: Instant,
    next_id: i64,
}

impl Client {
    fn spawn(exe: &str, envs: &[(String, String)]) -> Option<Client> {
        let mut cmd = Command::new(exe);
        cmd.stdin(Stdio::piped()).stdout(Stdio::piped()).stderr(Stdio::piped());
        cmd.env_remove("LD_PRELOAD").env_remove("A2KIT_VERIF_LOG").env_remove("A2KIT_VERIF_SCHED");
        cmd.env("RUST_BACKTRACE", "0");
        for (k, v) in envs { cmd.env(k, v); }
        crate::util::die_with_parent(&mut cmd);
        let mut child = cmd.spawn().ok()?;
        let stdin = child.stdin.take();
        let stdout = child.stdout.take()?;
        let stderr = child.stderr.take()?;
        let msgs = Arc::new(Mutex::new(Vec::new()));
        let errs = Arc::new(Mutex::new(String::new()));
        let t0 = Instant::now();
        {
            let msgs = Arc::clone(&msgs);
            std::thread::spawn(move || {
                let mut rd = BufReader::new(stdout);
                loop {
                    let mut len: Option<usize> = None;
                    loop {
                        let mut line = String::new();
                        match rd.read_line(&mut line) { Ok(0) | Err(_) => return, Ok(_) => {} }
                        let l = line.trim();
                        if l.is_empty() { break; }
                        let low = l.to_ascii_lowercase();
                        if let Some(v) = low.strip_prefix("content-length:") { len = v.trim().parse().ok(); }
                    }
                    let n = match len { Some(n) => n, None => return };
                    let mut buf = vec![0u8; n];
                    if rd.read_exact(&mut buf).is_err() { return; }
                    if let Ok(v) = json::parse(&String::from_utf8_lossy(&buf)) {
                        msgs.lock().unwrap().push((t0.elapsed().as_millis() as u64, v));
                    }
                }
            });
        }
        {
            let errs = Arc::clone(&errs);
            std::thread::spawn(move || {
                let mut rd = BufReader::new(stderr);
                let mut line = String::new();
                while let Ok(n) = rd.read_line(&mut line) {
                    if n == 0 { break; }
                    let mut g = errs.lock().unwrap();
                    if g.len() < 8_000_000 { g.push_str(&line); }
                    line.clear();
                }
            });
        }
        Some(Client { child, stdin, msgs, stderr: errs, t0, next_id: 100 })
    }
    fn send(&mut self, v: json::JsonValue) -> bool {
        let body = v.dump();
        match self.stdin.as_mut() {
            Some(w) => w.write_all(format!("Content-Length: {}\r\n\r\n{}", body.len(), body).as_bytes()).and_then(|_| w.flush()).is_ok(),
            None => false,
        }
    }
    fn notify(&mut self, method: &str, params: json::JsonValue) -> bool {
        self.send(json::object! { "jsonrpc": "2.0", "method": method, "params": params })
    }
    fn request(&mut self, method: &str, params: json::JsonValue) -> i64 {
        self.next_id += 1;
        let id = self.next_id;
        self.send(json::object! { "jsonrpc": "2.0", "id": id, "method": method, "params": params });
        id
    }
    fn now(&self) -> u64 { self.t0.elapsed().as_millis() as u64 }
    fn wait_for<F: Fn(&[(u64, json::JsonValue)]) -> bool>(&self, pred: F, timeout_ms: u64) -> bool {
        let t = Instant::now();
        loop {
            if pred(&self.msgs.lock().unwrap()) { return true; }
            if t.elapsed().as_millis() as u64 >= timeout_ms { return false; }
            std::thread::sleep(Duration::from_millis(8));
        }
    }
    /// like `wait_for`, but gives up 400 ms after a panic message has appeared on the server's stderr
    fn wait_for_or_panic<F: Fn(&[(u64, json::JsonValue)]) -> bool>(&self, pred: F, timeout_ms: u64) -> bool {
        let t = Instant::now();
        let mut panicked_at: Option<Instant> = None;
        loop {
            if pred(&self.msgs.lock().unwrap()) { return true; }
            if t.elapsed().as_millis() as u64 >= timeout_ms { return false; }
            if panicked_at.is_none() && self.stderr.lock().unwrap().contains("panicked at") { panicked_at = Some(Instant::now()); }
            if let Some(p) = panicked_at { if p.elapsed() > Duration::from_millis(400) { return pred(&self.msgs.lock().unwrap()); } }
            std::thread::sleep(Duration::from_millis(8));
        }
    }
    fn has_response(&self, id: i64, timeout_ms: u64) -> bool {
        self.wait_for(|ms| ms.iter().any(|(_, m)| m["id"].as_i64() == Some(id) && m["method"].is_null()), timeout_ms)
    }
    fn initialize(&mut self) -> bool { self.initialize_ws(None) }
    fn initialize_ws(&mut self, folder: Option<String>) -> bool {
        let mut params = json::object! { "processId": json::Null, "rootUri": json::Null,
            "capabilities": { "workspace": { "configuration": true } } };
        if let Some(f) = folder { params["workspaceFolders"] = json::array![ json::object! { "uri": f.as_str(), "name": "ws" } ]; }
        let id = self.request("initialize", params);
        if !self.has_response(id, T_INIT) { return false; }
        self.notify("initialized", json::object! {})
    }
    /// wait for the server's next `workspace/configuration` request after message index `from`
    /// and answer it from this thread (so that all client sends have one definite order)
    fn answer_config(&mut self, from: usize, settings: json::JsonValue) -> bool {
        let ok = self.wait_for(|ms| ms.iter().skip(from).any(|(_, m)| m["method"] == "workspace/configuration"), T_CFG);
        if !ok { return false; }
        let id = {
            let g = self.msgs.lock().unwrap();
            g.iter().skip(from).find(|(_, m)| m["method"] == "workspace/configuration").map(|(_, m)| m["id"].clone())
        };
        match id {
            Some(id) => self.send(json::object! { "jsonrpc": "2.0", "id": id, "result": json::array![settings] }),
            None => false,
        }
    }
    fn msg_count(&self) -> usize { self.msgs.lock().unwrap().len() }
    fn alive(&mut self) -> bool { matches!(self.child.try_wait(), Ok(None)) }
    fn publications(&self) -> Vec<(u64, String, Option<i64>, String)> {
        let g = self.msgs.lock().unwrap();
        g.iter().filter(|(_, m)| m["method"] == "textDocument/publishDiagnostics").map(|(t, m)| {
            (*t, m["params"]["uri"].as_str().unwrap_or("?").to_string(), m["params"]["version"].as_i64(), m["params"]["diagnostics"].dump())
        }).collect()
    }
    fn stderr_text(&self) -> String { self.stderr.lock().unwrap().clone() }
    fn shutdown(mut self) {
        let id = self.request("shutdown", json::Null);
        let _ = self.has_response(id, 200);
        self.notify("exit", json::Null);
        self.stdin = None;
        // (the servers never leave `io_threads.join()` because `connection` is still alive: kill)
        let t = Instant::now();
        while t.elapsed() < Duration::from_millis(30) {
            if let Ok(Some(_)) = self.child.try_wait() { return; }
            std::thread::sleep(Duration::from_millis(10));
        }
        // Drop kills and reaps
    }
}

impl Drop for Client {
    /// no server process may outlive its client, whatever path the harness takes
    fn drop(&mut self) {
        self.stdin = None;
        let _ = self.child.kill();
        let _ = self.child.wait();
    }
}

/// generous upper bounds (ms); every wait exits as soon as its condition holds, so these only cost
/// time when something is really wrong — a loaded machine must not turn into a verdict
const T_INIT: u64 = 40_000;
const T_CFG: u64 = 20_000;
const T_REQ: u64 = 20_000;
const T_PUBLISH: u64 = 30_000;

fn did_open(c: &mut Client, uri: &str, ver: i64, text: &str) -> bool {
    c.notify("textDocument/didOpen", json::object! { "textDocument": { "uri": uri, "languageId": "x", "version": ver, "text": text } })
}
fn did_change(c: &mut Client, uri: &str, ver: i64, text: &str) -> bool {
    c.notify("textDocument/didChange", json::object! { "textDocument": { "uri": uri, "version": ver }, "contentChanges": [ { "text": text } ] })
}
fn did_close(c: &mut Client, uri: &str) -> bool {
    c.notify("textDocument/didClose", json::object! { "textDocument": { "uri": uri } })
}
fn send_request(c: &mut Client, kind: usize, uri: &str, line: usize, ch: usize) -> i64 {
    let pos = json::object! { "line": line, "character": ch };
    match kind % 5 {
        0 => c.request("textDocument/hover", json::object! { "textDocument": { "uri": uri }, "position": pos }),
        1 => c.request("textDocument/completion", json::object! { "textDocument": { "uri": uri }, "position": pos, "context": { "triggerKind": 1 } }),
        2 => c.request("textDocument/documentSymbol", json::object! { "textDocument": { "uri": uri } }),
        3 => c.request("textDocument/semanticTokens/full", json::object! { "textDocument": { "uri": uri } }),
        _ => c.request("textDocument/definition", json::object! { "textDocument": { "uri": uri }, "position": pos }),
    }
}

/// `panic:<file relative to the crate>` from the location of an in-process panic (whatever directory the
/// working tree is in)
fn inproc_panic_sig(p: &str) -> String {
    let site = panic_site(p);
    let file = site.split(':').next().unwrap_or("?");
    format!("panic:{}", match file.find("src/") { Some(k) => &file[k..], None => file })
}

fn panic_sig(stderr: &str) -> Option<String> {
    // "thread '<unnamed>' panicked at src/lang/x.rs:12:5:"
    let i = stderr.find("panicked at ")?;
    let rest = &stderr[i + 12..];
    let site: String = rest.chars().take_while(|c| !c.is_whitespace() && *c != ',').collect();
    let mut parts = site.trim_end_matches(':').split(':');
    let file = parts.next().unwrap_or("?");
    let file = match file.find("src/") { Some(k) => &file[k..], None => file };
    Some(format!("panic:{}", file))
}

// ------------------------------------------------------------------------------------------------
// building the servers
// ------------------------------------------------------------------------------------------------

fn build_servers() -> Result<String, String> {
    let repo = std::env::var("A2KIT_REPO").unwrap_or_else(|_| "/repo".to_string());
    let cwd = std::env::current_dir().map_err(|e| e.to_string())?;
    let target = cwd.join("c18-target");
    let lock = std::path::Path::new(&repo).join("Cargo.lock");
    if !lock.exists() {
        let _ = std::fs::copy("/repo/Cargo.lock", &lock);
    }
    let mut cargo = Command::new("cargo");
    cargo.args(["build", "--offline", "--bins"]).current_dir(&repo)
        .env("RUSTFLAGS", "--cfg a2kit_verif").env("CARGO_TARGET_DIR", &target).env("CARGO_NET_OFFLINE", "true")
        .env_remove("LD_PRELOAD").env_remove("CARGO_ENCODED_RUSTFLAGS");
    crate::util::die_with_parent(&mut cargo);
    let out = cargo.output().map_err(|e| format!("cargo: {}", e))?;
    if !out.status.success() {
        let e = String::from_utf8_lossy(&out.stderr);
        let tail: Vec<&str> = e.lines().filter(|l| l.contains("error")).take(6).collect();
        return Err(tail.join(" | "));
    }
    Ok(target.join("debug").to_string_lossy().to_string())
}

// ------------------------------------------------------------------------------------------------
// document texts
// ------------------------------------------------------------------------------------------------

const AS_STMTS: [&str; 27] = ["LONGV = 1", "PRINT LONGV + 1", "Z = FN F(LONGV)", "PRINT \"HELLO\"", "GOTO 100", "GOSUB 1000", "FOR I = 1 TO 10", "NEXT I", "A = A + 1", "IF A > 3 THEN 50",
    "DIM A(10)", "INPUT \"NAME? \";N$", "HOME", "REM A COMMENT", "POKE 768,0", "CALL 768", "RETURN", "END", "X = PEEK(49152)",
    "DEF FN F(X) = X*2", "Y = FN F(3)", "ON A GOTO 10,20,30", "HTAB 5: VTAB 6", "PRINT CHR$(4);\"RUN X\"", "POKE 103,1: POKE 104,8",
    "A$ = \"AB\" + B$", "DATA 1,2,\"X\""];
const IB_STMTS: [&str; 18] = ["LONGV = 1", "PRINT LONGV + 1", "PRINT \"HELLO\"", "GOTO 100", "GOSUB 1000", "FOR I = 1 TO 10", "NEXT I", "A = A + 1", "IF A > 3 THEN 50",
    "DIM A(10)", "INPUT \"NAME\",N$", "REM A COMMENT", "POKE 768,0", "CALL 768", "RETURN", "END", "X = PEEK(2000)", "TAB 5: VTAB 6"];
const ME_LINES: [&str; 26] = ["START    LDA   #$00", "         STA   $C000", "LOOP     INX", "         BNE   LOOP", "         JMP   NOWHERE", "* comment line",
    "VAL      EQU   $300", "         ORG   $8000", "         JSR   SUB", "SUB      RTS", "MAC1     MAC", "         LDA   ]1", "         <<<", "         MAC1  #$01",
    "         DO    0", "         FIN", "]VAR     =     5", "         LDA   #]VAR", ":LOCAL   DEX", "         BPL   :LOCAL", "MSG      ASC   \"HELLO\"", "         HEX   00A1FF",
    "         DS    16", "         LUP   3", "         --^", "         PUT   OTHER"];

/// user-function and long variable names whose first two characters coincide: Applesoft keeps only
/// two significant characters, and the analyzer warns about collisions *within one program*.  Every
/// text uses ONE name of each family, so a fresh analysis never warns; a warning can only come
/// from names that an earlier analysis (older version, other document) left in the shared analyzer.
const FN_NAMES: [&str; 4] = ["CUBE", "CUTE", "CUP", "CUB2"];
const VAR_NAMES: [&str; 4] = ["BLUE", "BLIP", "BLUB", "BL2"];

/// Settings the client may send in answer to `workspace/configuration`; id 0 is always `{}` (the
/// built-in defaults).  Every entry changes the diagnostics of some generated text (severity of an
/// optional diagnostic, a diagnostic switched off or on, Merlin version = processor / syntax set).
fn settings_pool(lang: Lang) -> Vec<&'static str> {
    match lang {
        Lang::Applesoft => vec![
            r#"{"flag":{"undefinedVariables":"error"}}"#,
            r#"{"flag":{"undefinedVariables":"ignore","undeclaredArrays":"error"}}"#,
            r#"{"flag":{"caseSensitive":"warn","collisions":"ignore"}}"#,
            r#"{"flag":{"badReferences":"warn","extendedCall":"ignore","terminalString":"error"}}"#,
            r#"{"flag":{"caseSensitive":"error","terminalString":"ignore","collisions":"error","undeclaredArrays":"ignore","undefinedVariables":"info","badReferences":"info","extendedCall":"warn"}}"#,
            IGNORE_ALL, ERROR_ALL],
        Lang::Integer => vec![
            r#"{"flag":{"undefinedVariables":"error"}}"#,
            r#"{"flag":{"undeclaredArrays":"ignore","badReferences":"warn"}}"#,
            r#"{"flag":{"caseSensitive":"error","immediateMode":"warn"}}"#,
            r#"{"flag":{"undefinedVariables":"ignore","undeclaredArrays":"error","immediateMode":"ignore"},"warn":{"length":20}}"#,
            IGNORE_ALL, ERROR_ALL],
        Lang::Merlin => vec![
            r#"{"version":"Merlin 16"}"#,
            r#"{"version":"Merlin 16+"}"#,
            r#"{"version":"Merlin 32"}"#,
            r#"{"flag":{"caseSensitive":"error"}}"#,
            r#"{"flag":{"unclosedFolds":"ignore"}}"#,
            r#"{"version":"Merlin 16+","flag":{"caseSensitive":"warn","unclosedFolds":"warn"},"linker":{"detect":0.0}}"#,
            r#"{"version":"Merlin 32","flag":{"caseSensitive":"ignore","unclosedFolds":"info"},"linker":{"detect":1.0}}"#],
    }
}
const ME_LIVE_OFF: &str = r#"{"diagnostics":{"live":false}}"#;

fn cfg_is_live(json_text: &str) -> bool {
    match json::parse(json_text) { Ok(v) => v["diagnostics"]["live"].as_bool().unwrap_or(true), Err(_) => true }
}

/// statements whose diagnostics depend on the settings
const AS_SENS: [&str; 9] = ["PRINT UNDEF1", "ARR(3) = 1", "print \"lower\"", "GOTO 31999", "PRINT \"UNTERM", "CALL 768,A,B", "GREEN = 1: GREAT = 2",
    "A$ = \"X\": Print A$", "GOSUB 31998: Q(1,2) = Q2"];
const IB_SENS: [&str; 8] = ["PRINT UNDEF1", "ARR(3) = 1", "print \"lower\"", "GOTO 31999", "PRINT Q$", "Q(5) = Q2", "GOSUB 31998",
    "REM A LONG LINE TO TRIGGER THE LENGTH WARNING: PRINT \"0123456789012345678901234567890123456789\""];
/// Merlin lines whose meaning depends on the processor / assembler version / flags
const ME_SENS: [&str; 14] = ["         PHX", "         PLY", "         XBA", "         PHB", "         LDA   #$1234", "PHX      MAC", "         BRA   START", "         STZ   $C000",
    "         lda   #$01", "         DO    1", "         MVN   $01,$02", "         INC", "         JML   $010000", "         TSB   $10"];
/// Merlin lines that change what the analyzer carries (processor selection, MX, macro and variable
/// tables, include stack): allowed in *earlier* versions and other documents, never in a final text
const ME_HIST: [&str; 16] = ["         XC", "         XC\n         XC", "         XC    OFF", "         MX    %00", "         MX    %11", "         MX    %10",
    "PHX      MAC\n         TXA\n         PHA\n         <<<", "PLY      MAC\n         PLA\n         TAY\n         <<<", "INCD     MAC\n         INC   ]1\n         <<<",
    "         PUT   OTHER", "         USE   MACS", "         USE   4/MACS.S", "]CNT     =     7", "         DUM   $300\nBUF      DS    4",
    "         LUP   2\n         XC", "* a trailing comment block\n* that documents the next label"];

fn valid_text(lang: Lang, rng: &mut Rng) -> String { valid_text_h(lang, rng, false) }

/// `hist`: the text may contain lines that change what a Merlin analyzer carries (an *earlier* version
/// or another document; final texts are generated with `hist = false`)
fn valid_text_h(lang: Lang, rng: &mut Rng, hist: bool) -> String {
    let n = rng.range(1, 14);
    let mut s = String::new();
    match lang {
        Lang::Applesoft | Lang::Integer => {
            let mut ln = 10 * rng.range(1, 5);
            let f = *rng.pick(&FN_NAMES);
            let v = *rng.pick(&VAR_NAMES);
            for _ in 0..n {
                let stmt = if rng.chance(30) { if lang == Lang::Applesoft { *rng.pick(&AS_SENS) } else { *rng.pick(&IB_SENS) } }
                    else if lang == Lang::Applesoft { *rng.pick(&AS_STMTS) } else { *rng.pick(&IB_STMTS) };
                let stmt = stmt.replace("FN F(", &format!("FN {}(", f)).replace("LONGV", v);
                // any statement may be followed by a remark on the same line
                let rem = if rng.chance(12) && !stmt.contains("REM") && !stmt.contains("DATA") { ": REM NOTE" } else { "" };
                s.push_str(&format!("{} {}{}\n", ln, stmt, rem));
                ln += 10 * rng.range(1, 3);
            }
            // an earlier version may end inside a function definition (Applesoft keeps a DEF FN depth)
            if hist && lang == Lang::Applesoft && rng.chance(40) { s.push_str(&format!("{} DEF FN {}(UNDEF1) = UNDEF1 + W9\n", ln, f)); }
        }
        Lang::Merlin => {
            for _ in 0..n {
                let l = if hist && rng.chance(35) { *rng.pick(&ME_HIST) } else if rng.chance(30) { *rng.pick(&ME_SENS) } else { *rng.pick(&ME_LINES) };
                s.push_str(l); s.push('\n');
            }
        }
    }
    s
}

fn rand_unicode(rng: &mut Rng) -> char {
    let pools: [(u32, u32); 7] = [(0x20, 0x7e), (0xa0, 0x24f), (0x370, 0x3ff), (0x5d0, 0x5ea), (0x300, 0x36f), (0x1f300, 0x1f64f), (0x4e00, 0x4fff)];
    let (lo, hi) = *rng.pick(&pools);
    char::from_u32(lo + rng.below((hi - lo + 1) as usize) as u32).unwrap_or('?')
}

const ODD_KINDS: usize = 18;

/// Merlin pseudo-operations (with an operand that makes sense) and operands that do not
const ME_PSOPS: [&str; 46] = ["ORG", "EQU", "=", "DS", "HEX", "ASC", "DCI", "INV", "FLS", "REV", "STR", "DFB", "DB", "DA", "DW", "DDB", "ADR", "ADRL", "LUP", "--^", "DO", "IF", "ELSE", "FIN",
    "MAC", "<<<", "EOM", "PMC", ">>>", "PUT", "USE", "XC", "MX", "REL", "ENT", "EXT", "DUM", "DEND", "END", "LST", "TYP", "SAV", "DSK", "CHK", "ERR", "VAR"];
const ME_ODD_OPERANDS: [&str; 28] = ["", ":X", ":X+1", "]V", "]1", "#", "#:X", ",", ";", "\"", "'", "\"AB", "'A", "GG", "0", "%2", "$", "$G", "(", ")", "<", "-:X", ":X-:Y", "*", "*-:X", "1;2", "X,", "OFF"];
/// BASIC statements with missing or odd operands
const BAS_ODD: [&str; 33] = ["ONERR GOTO 100", "ONERR GOTO 100: REM TRAP ERRORS", "ONERR GOTO 100: PRINT 1: REM AND MORE", "PRINT ,", "GOTO", "GOSUB", "FOR", "FOR I", "FOR I =", "NEXT ,", "DIM", "DIM A(", "DEF FN", "DEF FN A", "DEF FN A(", "ON GOTO", "ON X GOSUB", "POKE", "POKE 1", "CALL",
    "IF THEN", "IF A THEN", "LET =", "= 1", "DATA", "READ", "INPUT", "INPUT \"", "GET", "&", "HPLOT TO", "TAB(", "A$(1,"];

/// broken / odd documents; `k` selects the kind
fn odd_text(lang: Lang, k: usize, rng: &mut Rng) -> (String, &'static str) {
    let base = valid_text(lang, rng);
    match k % ODD_KINDS {
        0 => { // random bytes as text (lossy utf-8)
            let n = rng.range(1, 400);
            (String::from_utf8_lossy(&rng.bytes(n)).to_string(), "random-bytes")
        }
        1 => { // random printable ascii with newlines
            let n = rng.range(1, 600);
            ((0..n).map(|_| if rng.chance(6) { '\n' } else { (32 + rng.below(95) as u8) as char }).collect(), "random-ascii")
        }
        2 => { // huge line
            let n = rng.range(1000, 6000);
            let unit = *rng.pick(&["A", "1", "\"", "(", ":", " ", "PRINT", "LDA ", ","]);
            let mut s = match lang { Lang::Merlin => String::from("LBL LDA "), _ => String::from("10 ") };
            while s.len() < n { s.push_str(unit); }
            (s + "\n", "huge-line")
        }
        3 => (base.replace('"', "") + "20 PRINT \"UNTERMINATED\n30 A$ = \"X\n", "unbalanced-quotes"),
        4 => (base.replace('\n', "\r\n"), "crlf"),
        5 => (base.replace('\n', "\r"), "lone-cr"),
        6 => { // unicode sprinkled
            let mut s = String::new();
            for ch in base.chars() { s.push(ch); if rng.chance(8) { s.push(rand_unicode(rng)); } }
            (s, "unicode")
        }
        7 => { // control characters and NUL
            let mut s = String::new();
            for ch in base.chars() { s.push(ch); if rng.chance(6) { s.push(char::from_u32(rng.below(32) as u32).unwrap()); } }
            (s, "control-chars")
        }
        8 => { // truncated in the middle
            let cut = rng.below(base.len().max(1));
            let mut c = cut; while !base.is_char_boundary(c) { c -= 1; }
            (base[..c].to_string(), "truncated")
        }
        9 => { // many lines
            let n = rng.range(300, 1500);
            let mut s = String::new();
            for i in 0..n { match lang { Lang::Merlin => s.push_str(&format!("L{} NOP\n", i % 50)), _ => s.push_str(&format!("{} GOTO {}\n", i, (i * 7) % n)) } }
            (s, "many-lines")
        }
        10 => { // extreme numbers
            let s = match lang {
                Lang::Merlin => "X EQU $FFFFFFFFFFFFFFFFFFFF\n LDA #99999999999999999999\n ORG $-1\n DS 99999999999\n LUP 4294967296\n --^\n".to_string(),
                _ => "99999999999999999999 GOTO 99999999999999999999\n65536 PRINT 1E999\n-1 POKE 99999999999,-99999999999\n0 ON 99999999999999999999999 GOTO 1\n10 DIM A(99999999999999999999)\n".to_string(),
            };
            (s, "extreme-numbers")
        }
        11 => { // words shuffled: syntactically broken
            let words: Vec<&str> = base.split_whitespace().collect();
            let mut s = String::new();
            for _ in 0..words.len().max(3) { if !words.is_empty() { s.push_str(*rng.pick(&words[..])); } s.push(if rng.chance(15) { '\n' } else { ' ' }); }
            (s, "shuffled")
        }
        12 => { // empty-ish
            ((*rng.pick(&["", "\n", " ", "\n\n\n", "\t", "\u{feff}", " \n \n"])).to_string(), "blank")
        }
        14 => { // local labels (and other scope-dependent operands) before any global label opens a scope
            let s = match lang {
                Lang::Merlin => {
                    let ops = ["DO", "IF", "LUP", "EQU", "=", "DS", "ORG", "LDA", "BNE", "DA", "VAR", "JMP", "MX", "DFB", "ASC"];
                    let args = [":X", ":X+1", "#:X", ":X-:Y", "<:X", "-:X", "*-:X", "(:X),Y", ":X,X", "]V+:X"];
                    let mut s = String::new();
                    for _ in 0..rng.range(1, 6) {
                        let lab = *rng.pick(&["", "", ":L", "]V", ":X"]);
                        s.push_str(&format!("{:<9}{:<6}{}\n", lab, *rng.pick(&ops), *rng.pick(&args)));
                    }
                    if rng.chance(50) { s.push_str("GLOBAL   LDA   :X\n:X       RTS\n"); }
                    s
                }
                _ => { let mut s = String::new(); for i in 0..rng.range(1, 6) { s.push_str(&format!("{} NEXT I: RETURN: POP: {}\n", 10 * (i + 1), *rng.pick(&BAS_ODD))); } s }
            };
            (s, "no-scope-yet")
        }
        15 => { // macro arguments of length 0, 1, many; calls in every syntax
            let s = match lang {
                Lang::Merlin => {
                    let mut s = String::from("M1       MAC\n         LDA   ]1\n         STA   ]2\n         LDX   #]3\n]LOOP    DEX\n         <<<\n");
                    let args = ["", "1", "A", "#", "1;2", "A;B;C", ";", ";;", "X;", ";Y", "#1;#2;#3", "\"A\"", "'", "(1);2", "LONGNAME;B", "]1;]2", "1;2;3;4;5;6;7;8;9"];
                    for _ in 0..rng.range(1, 7) {
                        let a = *rng.pick(&args);
                        s.push_str(&match rng.below(4) { 0 => format!("         M1    {}\n", a), 1 => format!("         PMC   M1,{}\n", a), 2 => format!("         >>>   M1.{}\n", a), _ => format!("         PMC   M1;{}\n", a) });
                    }
                    s
                }
                _ => { let mut s = String::from("10 DEF FN A(X) = X\n"); for i in 0..rng.range(1, 6) { s.push_str(&format!("{} PRINT FN A({}): {}\n", 20 + 10 * i, *rng.pick(&["", "1", "X", ",", "1,2", "("]), *rng.pick(&BAS_ODD))); } s }
            };
            (s, "macro-arguments")
        }
        16 => { // every pseudo-op / statement with missing or odd operands
            let mut s = String::new();
            for i in 0..rng.range(1, 8) {
                match lang {
                    Lang::Merlin => s.push_str(&format!("{:<9}{:<6}{}\n", *rng.pick(&["", "", "LBL", ":L", "]V"]), *rng.pick(&ME_PSOPS), *rng.pick(&ME_ODD_OPERANDS))),
                    _ => s.push_str(&format!("{} {}\n", 10 * (i + 1), *rng.pick(&BAS_ODD))),
                }
            }
            (s, "odd-operands")
        }
        17 => { // unterminated strings and delimiters in every string pseudo-op / statement
            let mut s = String::new();
            for i in 0..rng.range(1, 6) {
                match lang {
                    Lang::Merlin => s.push_str(&format!("         {:<6}{}\n", *rng.pick(&["ASC", "DCI", "INV", "FLS", "REV", "STR", "LDA", "CMP", "DFB", "PUT", "USE", "SAV", "TTL"]),
                        *rng.pick(&["\"ABC", "'ABC", "\"", "'", "\"A\"B", "'A'B'", "#\"", "#'A", "\"A',00", "'A\",80", "\"\"\"", "/AB", "/AB/,", "\"A\",", "\"A\",GG"]))),
                    _ => s.push_str(&format!("{} {}\n", 10 * (i + 1), *rng.pick(&["PRINT \"ABC", "A$ = \"", "PRINT \"A\";\"B", "INPUT \"X;A$", "DATA \"A,B", "REM \"", "PRINT \"\"\"", "IF A$ = \" THEN 10", "PRINT CHR$(34);\""]))),
                }
            }
            (s, "unterminated-strings")
        }
        _ => { // deep nesting / repeated structure
            let n = rng.range(50, 3000);
            let s = match lang {
                Lang::Merlin => { let mut s = String::new(); for _ in 0..n.min(400) { s.push_str(" DO 1\n"); } s.push_str(" LDA #"); for _ in 0..n { s.push('('); } s.push('\n'); s }
                _ => { let mut s = String::from("10 A = "); for _ in 0..n { s.push('('); } s.push('1'); for _ in 0..n / 2 { s.push(')'); } s.push('\n'); s }
            };
            (s, "deep-nesting")
        }
    }
}

// ------------------------------------------------------------------------------------------------
// histories
// ------------------------------------------------------------------------------------------------

#[derive(Clone, Debug)]
enum Act {
    Open { d: usize, ver: i64, t: usize },
    Change { d: usize, ver: i64, t: usize },
    Close { d: usize },
    Req { kind: usize, d: usize, line: usize, ch: usize },
    /// `workspace/didChangeConfiguration` → server pulls → we answer with `case.cfgs[cfg]`
    Config { cfg: usize },
}

#[derive(Clone, Debug)]
struct Case {
    lang: Lang,
    idx: usize,
    steps: Vec<(u64, Act)>,
    texts: Vec<String>,
    /// settings objects (JSON text) used by this case; `cfgs[0]` is `{}` = the defaults
    cfgs: Vec<String>,
    sched: Vec<(String, i64, u64)>,
    /// answer to the configuration request the server sends right after `initialized`
    initial_cfg: Option<usize>,
    poison: bool,
    burst: bool,
    /// requests must be answered within this many ms although an analysis holds the mutex much longer
    max_latency: Option<u64>,
}

impl Case {
    fn sched_string(&self) -> String {
        self.sched.iter().map(|(t, v, ms)| format!("{}:{}={}", t, v, ms)).collect::<Vec<_>>().join(",")
    }
    fn describe(&self) -> String {
        let mut s = format!("idx={} srv={} sched={} cfg0={} steps=", self.idx, self.lang.name(), self.sched_string(),
            match self.initial_cfg { Some(c) => c.to_string(), None => "-".to_string() });
        for (gap, a) in &self.steps {
            s.push_str(&match a {
                Act::Open { d, ver, t } => format!("+{}ms O{}v{}t{} ", gap, d, ver, t),
                Act::Change { d, ver, t } => format!("+{}ms C{}v{}t{} ", gap, d, ver, t),
                Act::Close { d } => format!("+{}ms X{} ", gap, d),
                Act::Req { kind, d, .. } => format!("+{}ms R{}d{} ", gap, kind, d),
                Act::Config { cfg } => format!("+{}ms G{} ", gap, cfg),
            });
        }
        s.push_str(&format!("cfgs={}", self.cfgs.iter().enumerate().skip(1).map(|(i, c)| format!("{}:{}", i, c)).collect::<Vec<_>>().join(";")));
        s
    }
    fn launches(&self) -> usize { self.steps.iter().filter(|(_, a)| matches!(a, Act::Open { .. } | Act::Change { .. })).count() }
    fn live_off(&self) -> bool {
        self.steps.iter().any(|(_, a)| matches!(a, Act::Config { cfg } if !cfg_is_live(&self.cfgs[*cfg])))
            || matches!(self.initial_cfg, Some(c) if !cfg_is_live(&self.cfgs[c]))
    }
}

fn tag_text(lang: Lang, t: usize, txt: String) -> String {
    // keep texts of one case pairwise distinct so that a text id identifies a text
    format!("{}{}", txt, match lang { Lang::Merlin => format!("* t{}\n", t), _ => format!("{} REM T{}\n", 60000 + t, t) })
}

fn gen_case(lang: Lang, idx: usize, rng: &mut Rng) -> Case {
    let ndocs = *rng.pick(&[1usize, 1, 2, 2, 3]);
    let nedits = rng.range(2, 9);
    let burst = rng.chance(35);
    let poison = rng.chance(8);
    // the settings of this case
    let pool = settings_pool(lang);
    let mut cfgs = vec!["{}".to_string()];
    for _ in 0..rng.range(1, 3) { cfgs.push(rng.pick(&pool).to_string()); }
    if lang == Lang::Merlin && rng.chance(12) { cfgs.push(ME_LIVE_OFF.to_string()); }
    let mut steps: Vec<(u64, Act)> = Vec::new();
    let mut open = vec![false; ndocs];
    let mut next_ver = vec![0i64; ndocs];
    let mut life = vec![0usize; ndocs];
    let mut all_vers: Vec<i64> = Vec::new();
    let mut ntexts = 0usize;
    let mut last_text_of_doc: Vec<Option<usize>> = vec![None; ndocs];
    let mut held: Vec<(i64, u64)> = Vec::new();
    let gaps: [u64; 8] = [0, 0, 5, 20, 60, 120, 200, 300];
    for e in 0..nedits + ndocs {
        let d = if e < ndocs { e } else { rng.below(ndocs) };
        let gap = if burst { *rng.pick(&[0u64, 0, 0, 3]) } else { *rng.pick(&gaps) };
        let t = ntexts;
        ntexts += 1;
        last_text_of_doc[d] = Some(t);
        next_ver[d] += 1;
        // a document that was closed and is opened again starts a new, LOWER range of version numbers
        // (editors restart the counter; all versions of a case stay distinct)
        if !open[d] && next_ver[d] > 1 { life[d] = (life[d] + 1).min(8); }
        let ver = (d as i64 + 1) * 1000 + (8 - life[d] as i64) * 100 + next_ver[d];
        all_vers.push(ver);
        if !open[d] {
            steps.push((gap, Act::Open { d, ver, t }));
            open[d] = true;
        } else {
            steps.push((gap, Act::Change { d, ver, t }));
        }
        if rng.chance(25) { steps.push((*rng.pick(&gaps), Act::Req { kind: rng.below(5), d, line: rng.below(4), ch: rng.below(12) })); }
        if rng.chance(10) && e + 1 < nedits + ndocs { steps.push((*rng.pick(&gaps), Act::Close { d })); open[d] = false; }
        if rng.chance(22) {
            // the answer arrives before / while / after the analysis of the edit just sent
            let cfg = rng.below(cfgs.len());
            match rng.below(3) {
                0 => steps.push((*rng.pick(&gaps), Act::Config { cfg })),
                1 => { held.push((ver, *rng.pick(&[200u64, 350, 500]))); steps.push((*rng.pick(&[0u64, 10, 40]), Act::Config { cfg })); }
                _ => steps.push((*rng.pick(&[150u64, 300]), Act::Config { cfg })),
            }
        }
    }
    let finals: Vec<usize> = last_text_of_doc.iter().flatten().cloned().collect();
    let mut texts: Vec<String> = Vec::new();
    for t in 0..ntexts {
        let is_final = finals.contains(&t);
        let txt = if rng.chance(25) { let k = *rng.pick(&[3usize, 4, 5, 6, 7, 8, 9, 10, 11, 14, 15, 16, 17]); odd_text(lang, k, rng).0 } else { let h = !is_final && rng.chance(70); valid_text_h(lang, rng, h) };
        texts.push(tag_text(lang, t, txt));
    }
    // delay table: force out-of-order acquisition/completion
    let mut sched = Vec::new();
    for v in &all_vers {
        if let Some((_, ms)) = held.iter().find(|(hv, _)| hv == v) { sched.push(("hold".to_string(), *v, *ms)); continue; }
        if rng.chance(35) { sched.push(("lock".to_string(), *v, *rng.pick(&[30u64, 80, 150, 250]))); }
        if rng.chance(20) { sched.push(("hold".to_string(), *v, *rng.pick(&[50u64, 120, 250]))); }
        if rng.chance(10) { sched.push(("finish".to_string(), *v, *rng.pick(&[40u64, 100]))); }
    }
    if poison && all_vers.len() >= 2 {
        let v = all_vers[rng.below(all_vers.len() - 1)];
        sched.retain(|(_, sv, _)| *sv != v);
        sched.push(("panic".to_string(), v, 1));
    }
    let initial_cfg = if rng.chance(60) { Some(rng.below(cfgs.len())) } else { None };
    Case { lang, idx, steps, texts, cfgs, sched, initial_cfg, poison, burst, max_latency: None }
}

/// how long the first analysis of fixed schedule (b) keeps the mutex
const HOLD_MS: u64 = 4000;

/// two texts per language such that analysing B after A with a leaking analyzer differs from
/// analysing B alone (and vice versa)
fn leak_texts(lang: Lang) -> (String, String) {
    match lang {
        Lang::Applesoft => ("10 DEF FN CUBE(X) = X*X*X\n20 BLUE = 2\n30 PRINT FN CUBE(BLUE)\n40 GOTO 100\n100 END\n".to_string(),
                            "10 DEF FN CUTE(X) = X+1\n20 BLIP = 3\n30 PRINT FN CUTE(BLIP)\n40 GOTO 100\n".to_string()),
        Lang::Integer => ("10 DIM NAME$(10),A(5)\n20 NAME$ = \"X\"\n30 A(1) = 1\n40 GOTO 100\n100 END\n".to_string(),
                          "10 PRINT NAME$\n20 PRINT A(1)\n30 GOTO 100\n".to_string()),
        Lang::Merlin => ("SUB      RTS\nVAL      EQU   $300\nM1       MAC\n         LDA   ]1\n         <<<\n]V       =     5\n".to_string(),
                         "         JSR   SUB\n         LDA   VAL\n         M1    #1\n         LDA   #]V\n".to_string()),
    }
}

/// a text that reacts to every setting of its language (and, for Merlin, to the processor selection)
fn sens_text(lang: Lang, salt: usize) -> String {
    let mut s = String::new();
    match lang {
        Lang::Applesoft => for (i, l) in AS_SENS.iter().enumerate() { s.push_str(&format!("{} {}\n", 10 * (i + 1), l)); },
        Lang::Integer => for (i, l) in IB_SENS.iter().enumerate() { s.push_str(&format!("{} {}\n", 10 * (i + 1), l)); },
        Lang::Merlin => {
            s.push_str("PHX      MAC\n         TXA\n         PHA\n         <<<\nSTART    LDX   #$01\n");
            for l in ME_SENS.iter() { if !l.contains("MAC") { s.push_str(l); s.push('\n'); } }
            s.push_str("         FIN\n         DO    0\n         RTS\n");
        }
    }
    match lang { Lang::Merlin => s.push_str(&format!("* s{}\n", salt)), _ => s.push_str(&format!("{} REM S{}\n", 59000 + salt, salt)) }
    s
}

/// an *earlier* text that leaves as much as possible in the analyzer for the next analysis
fn hist_text(lang: Lang, k: usize) -> String {
    match lang {
        Lang::Merlin => {
            let pre = ["         XC\n", "         XC\n         XC\n", "         XC    OFF\n", "         XC\n         XC\n         MX    %00\n",
                "         MX    %10\nINCD     MAC\n         INC   ]1\n         <<<\n", "         USE   MACS\n         PUT   OTHER\n]CNT     =     7\n"];
            format!("{}PHX      MAC\n         TXA\n         PHA\n         <<<\nSTART    LDX   #$00\n         PHX\n         XBA\n         LDA   #$1234\n         DO    1\n         LUP   2\nLAST     MAC\n* doc of nothing\n", pre[k % pre.len()])
        }
        Lang::Applesoft => format!("10 DEF FN CUBE(X) = X*X*X\n20 BLUE = 2: BLIP = 3: print \"x\n30 POKE 103,1: POKE 104,8\n40 DIM ARR(3),Q(2,2): UNDEF1 = {}\n50 DEF FN CUP(UNDEF1) = UNDEF1 + Q2\n", k),
        Lang::Integer => format!("10 DIM ARR(5),Q(9),Q$(10)\n20 UNDEF1 = {}: Q2 = 1\n30 DIM NAME$(10\n", k),
    }
}

/// hand-made schedules that every run must contain
fn fixed_cases(lang: Lang, base: usize, rng: &mut Rng) -> Vec<Case> {
    let mk = |t: usize, rng: &mut Rng| tag_text(lang, t, valid_text(lang, rng));
    let pool = settings_pool(lang);
    let no_cfg = || vec!["{}".to_string()];
    let mut out = Vec::new();
    // (a) burst of 6 edits, completion order reversed by the delay table
    let texts: Vec<String> = (0..6).map(|t| mk(t, rng)).collect();
    let mut steps = vec![(0, Act::Open { d: 0, ver: 1001, t: 0 })];
    for i in 1..6 { steps.push((0, Act::Change { d: 0, ver: 1001 + i as i64, t: i })); }
    steps.push((10, Act::Req { kind: 0, d: 0, line: 0, ch: 4 }));
    let sched = (0..6).map(|i| ("lock".to_string(), 1001 + i as i64, 60 * (5 - i as u64))).collect();
    out.push(Case { lang, idx: base, steps, texts, cfgs: no_cfg(), sched, initial_cfg: None, poison: false, burst: true, max_latency: None });
    // (b) first analysis holds the mutex for several seconds while two documents are edited and requests arrive
    let texts: Vec<String> = (0..4).map(|t| mk(t, rng)).collect();
    let steps = vec![(0, Act::Open { d: 0, ver: 1001, t: 0 }), (30, Act::Open { d: 1, ver: 2001, t: 1 }), (10, Act::Req { kind: 0, d: 0, line: 0, ch: 4 }),
        (0, Act::Change { d: 0, ver: 1002, t: 2 }), (20, Act::Req { kind: 1, d: 1, line: 0, ch: 2 }), (0, Act::Change { d: 1, ver: 2002, t: 3 }), (50, Act::Req { kind: 2, d: 0, line: 0, ch: 0 })];
    out.push(Case { lang, idx: base + 1, steps, texts, cfgs: no_cfg(), sched: vec![("hold".to_string(), 1001, HOLD_MS)], initial_cfg: Some(0), poison: false, burst: false, max_latency: Some(HOLD_MS) });
    // (c) configuration answered while an analysis holds the mutex; private-analyzer relaunch
    let texts: Vec<String> = (0..3).map(|t| mk(t, rng)).collect();
    let steps = vec![(0, Act::Open { d: 0, ver: 1001, t: 0 }), (0, Act::Open { d: 1, ver: 2001, t: 1 }), (20, Act::Config { cfg: 0 }), (0, Act::Change { d: 0, ver: 1002, t: 2 }),
        (0, Act::Req { kind: 0, d: 0, line: 0, ch: 3 })];
    out.push(Case { lang, idx: base + 2, steps, texts, cfgs: no_cfg(), sched: vec![("hold".to_string(), 1001, 200), ("lock".to_string(), 2001, 100)], initial_cfg: Some(0), poison: false, burst: false, max_latency: None });
    // (d) injected thread death: poisoning must silence the shared analyzer exactly as the model says
    let texts: Vec<String> = (0..4).map(|t| mk(t, rng)).collect();
    let steps = vec![(0, Act::Open { d: 0, ver: 1001, t: 0 }), (150, Act::Change { d: 0, ver: 1002, t: 1 }), (0, Act::Change { d: 0, ver: 1003, t: 2 }),
        (100, Act::Req { kind: 0, d: 0, line: 0, ch: 3 }), (50, Act::Change { d: 0, ver: 1004, t: 3 })];
    out.push(Case { lang, idx: base + 3, steps, texts, cfgs: no_cfg(), sched: vec![("panic".to_string(), 1002, 1)], initial_cfg: None, poison: true, burst: false, max_latency: None });
    // (e) burst of changes on a LARGE document, no delay table: the analysis takes longer than the gaps,
    //     so jobs pile up behind the mutex by themselves (works without hooks too)
    let big = |t: usize, rng: &mut Rng| {
        let mut s = String::new();
        for i in 0..700 { match lang {
            Lang::Merlin => s.push_str(&format!("L{}T{}   LDA   #${:02X}\n         JSR   L{}T{}\n", i, t, i % 256, (i * 7) % 700, t)),
            _ => s.push_str(&format!("{} A{} = A{} + {}: GOTO {}\n", 10 + i, i % 9, (i + t) % 9, i, 10 + (i * 7 + t) % 700)),
        } }
        let _ = rng;
        s + &match lang { Lang::Merlin => format!("* t{}\n", t), _ => format!("{} REM T{}\n", 60000 + t, t) }
    };
    let texts: Vec<String> = (0..5).map(|t| big(t, rng)).collect();
    let mut steps = vec![(0, Act::Open { d: 0, ver: 1001, t: 0 })];
    for i in 1..5 { steps.push((0, Act::Change { d: 0, ver: 1001 + i as i64, t: i })); }
    out.push(Case { lang, idx: base + 4, steps, texts, cfgs: no_cfg(), sched: vec![], initial_cfg: None, poison: false, burst: true, max_latency: None });
    // (f) what one analysis leaves in the shared analyzer must not reach the next: B after A on the same
    //     document and on another one, in launch order ...
    let (a, b) = leak_texts(lang);
    let texts = vec![a.clone(), a.clone() + &match lang { Lang::Merlin => "* other\n".to_string(), _ => "60001 REM OTHER\n".to_string() }, b.clone()];
    let steps = vec![(0, Act::Open { d: 0, ver: 1001, t: 0 }), (0, Act::Open { d: 1, ver: 2001, t: 1 }), (40, Act::Open { d: 2, ver: 3001, t: 2 }), (40, Act::Change { d: 0, ver: 1002, t: 2 })];
    out.push(Case { lang, idx: base + 5, steps: steps.clone(), texts: texts.clone(), cfgs: no_cfg(), sched: vec![], initial_cfg: None, poison: false, burst: false, max_latency: None });
    // (g) ... and with the analyses forced out of launch order (B is analysed first, then A)
    out.push(Case { lang, idx: base + 6, steps: vec![(0, Act::Open { d: 0, ver: 1001, t: 0 }), (0, Act::Open { d: 1, ver: 2001, t: 2 })], texts, cfgs: no_cfg(),
        sched: vec![("lock".to_string(), 1001, 300)], initial_cfg: None, poison: false, burst: false, max_latency: None });
    // ---- settings ----
    // (h) the client's settings arrive WHILE an analysis holds the shared analyzer (the handler has to
    //     wait for it); later edits must be analysed with them.  One case per settings object of the pool,
    //     rotating with the seed, the first always being the first of the pool.
    let k1 = 0usize;
    let k2 = 1 + rng.below(pool.len() - 1);
    for (n, k) in [k1, k2].iter().enumerate() {
        let texts = vec![tag_text(lang, 0, hist_text(lang, n)), tag_text(lang, 1, sens_text(lang, 1)), tag_text(lang, 2, sens_text(lang, 2)), tag_text(lang, 3, sens_text(lang, 3))];
        let steps = vec![(0, Act::Open { d: 0, ver: 1001, t: 0 }), (80, Act::Config { cfg: 1 }), (0, Act::Open { d: 1, ver: 2001, t: 1 }), (0, Act::Req { kind: 2, d: 0, line: 0, ch: 0 }),
            (700, Act::Change { d: 0, ver: 1002, t: 2 }), (0, Act::Change { d: 1, ver: 2002, t: 3 })];
        out.push(Case { lang, idx: base + 7 + n, steps, texts, cfgs: vec!["{}".to_string(), pool[*k].to_string()], sched: vec![("hold".to_string(), 1001, 500)],
            initial_cfg: if n == 0 { None } else { Some(0) }, poison: false, burst: false, max_latency: None });
    }
    // (i) two answers while the analyzer is held: the second one must win, for shared and private jobs alike
    let ka = rng.below(pool.len());
    let kb = (ka + 1 + rng.below(pool.len() - 1)) % pool.len();
    let texts = vec![tag_text(lang, 0, sens_text(lang, 0)), tag_text(lang, 1, hist_text(lang, 3)), tag_text(lang, 2, sens_text(lang, 2)), tag_text(lang, 3, sens_text(lang, 3))];
    let steps = vec![(0, Act::Open { d: 0, ver: 1001, t: 0 }), (0, Act::Open { d: 1, ver: 2001, t: 1 }), (60, Act::Config { cfg: 1 }), (30, Act::Config { cfg: 2 }),
        (0, Act::Change { d: 1, ver: 2002, t: 2 }), (500, Act::Change { d: 0, ver: 1002, t: 3 })];
    out.push(Case { lang, idx: base + 9, steps, texts, cfgs: vec!["{}".to_string(), pool[ka].to_string(), pool[kb].to_string()],
        sched: vec![("hold".to_string(), 1001, 350), ("hold".to_string(), 2001, 200)], initial_cfg: None, poison: false, burst: false, max_latency: None });
    // (j) settings before any analysis, a burst afterwards; (k) settings when everything is quiet, then an edit
    let kj = rng.below(pool.len());
    let texts = vec![tag_text(lang, 0, hist_text(lang, 1)), tag_text(lang, 1, hist_text(lang, 4)), tag_text(lang, 2, sens_text(lang, 2)), tag_text(lang, 3, sens_text(lang, 3))];
    let steps = vec![(0, Act::Open { d: 0, ver: 1001, t: 0 }), (0, Act::Open { d: 1, ver: 2001, t: 1 }), (0, Act::Change { d: 0, ver: 1002, t: 2 }), (0, Act::Change { d: 1, ver: 2002, t: 3 })];
    out.push(Case { lang, idx: base + 10, steps, texts: texts.clone(), cfgs: vec!["{}".to_string(), pool[kj].to_string()], sched: vec![("lock".to_string(), 1001, 120)],
        initial_cfg: Some(1), poison: false, burst: true, max_latency: None });
    let kk = rng.below(pool.len());
    let steps = vec![(0, Act::Open { d: 0, ver: 1001, t: 0 }), (0, Act::Open { d: 1, ver: 2001, t: 1 }), (400, Act::Config { cfg: 1 }), (250, Act::Change { d: 0, ver: 1002, t: 2 }),
        (0, Act::Close { d: 1 }), (30, Act::Open { d: 1, ver: 2002, t: 3 })];
    out.push(Case { lang, idx: base + 11, steps, texts, cfgs: vec!["{}".to_string(), pool[kk].to_string()], sched: vec![], initial_cfg: None, poison: false, burst: false, max_latency: None });
    // (m) close and re-open with RESTARTED (lower) version numbers, as editors do: the re-opened document must
    //     get its diagnostics although its versions are smaller than the ones seen before the close
    let texts: Vec<String> = (0..6).map(|t| mk(t, rng)).collect();
    let steps = vec![(0, Act::Open { d: 0, ver: 1705, t: 0 }), (30, Act::Change { d: 0, ver: 1706, t: 1 }), (30, Act::Change { d: 0, ver: 1707, t: 2 }), (150, Act::Close { d: 0 }),
        (50, Act::Open { d: 0, ver: 1001, t: 3 }), (100, Act::Change { d: 0, ver: 1002, t: 4 }), (0, Act::Req { kind: 2, d: 0, line: 0, ch: 0 }), (100, Act::Change { d: 0, ver: 1003, t: 5 })];
    out.push(Case { lang, idx: base + 14, steps, texts, cfgs: no_cfg(), sched: vec![], initial_cfg: None, poison: false, burst: false, max_latency: None });
    // (n) every statement kind of the pool followed by a remark on the same line (BASIC `: REM …`, Applesoft also
    //     `ONERR GOTO n` followed by a remark / by statements; Merlin a trailing `; comment`): the analysis of such a
    //     text must come back, and the documents edited afterwards must still get their diagnostics
    let remarks = |t: usize| -> String {
        let mut s = String::new();
        match lang {
            Lang::Applesoft => {
                s.push_str("10 ONERR GOTO 900: REM TRAP DISK ERRORS\n20 ONERR GOTO 900: PRINT 1: REM AND MORE\n30 ONERR GOTO 900\n");
                for (i, l) in AS_STMTS.iter().enumerate() { if !l.contains("REM") && !l.contains("DATA") { s.push_str(&format!("{} {}: REM NOTE {}\n", 100 + 10 * i, l.replace("FN F(", "FN CUBE(").replace("LONGV", "BLUE"), i)); } }
                s.push_str("900 END: REM DONE\n");
            }
            Lang::Integer => for (i, l) in IB_STMTS.iter().enumerate() { if !l.contains("REM") { s.push_str(&format!("{} {}: REM NOTE {}\n", 100 + 10 * i, l.replace("LONGV", "BLUE"), i)); } },
            Lang::Merlin => for (i, l) in ME_LINES.iter().enumerate() { if !l.starts_with('*') { s.push_str(&format!("{} ; note {}\n", l, i)); } },
        }
        tag_text(lang, t, s)
    };
    let texts = vec![remarks(0), mk(1, rng), mk(2, rng), remarks(3)];
    let steps = vec![(0, Act::Open { d: 0, ver: 1001, t: 0 }), (100, Act::Open { d: 1, ver: 2001, t: 1 }), (100, Act::Change { d: 0, ver: 1002, t: 2 }), (0, Act::Req { kind: 2, d: 1, line: 0, ch: 0 }),
        (50, Act::Change { d: 1, ver: 2002, t: 3 })];
    out.push(Case { lang, idx: base + 15, steps, texts, cfgs: no_cfg(), sched: vec![], initial_cfg: None, poison: false, burst: false, max_latency: None });
    // ---- history ----
    // (l) every kind of earlier text (other versions of the document, another open document), analysed in and
    //     out of launch order, then the final texts; under the defaults and under one settings object
    for n in 0..2usize {
        let mut texts: Vec<String> = (0..6).map(|k| tag_text(lang, k, hist_text(lang, k))).collect();
        texts.push(tag_text(lang, 6, sens_text(lang, 6)));
        texts.push(tag_text(lang, 7, sens_text(lang, 7)));
        let steps = vec![(0, Act::Open { d: 0, ver: 1001, t: 0 }), (0, Act::Open { d: 1, ver: 2001, t: 1 }), (20, Act::Change { d: 0, ver: 1002, t: 2 }), (0, Act::Change { d: 1, ver: 2002, t: 3 }),
            (0, Act::Open { d: 2, ver: 3001, t: 4 }), (30, Act::Change { d: 0, ver: 1003, t: 6 }), (0, Act::Change { d: 2, ver: 3002, t: 5 }), (0, Act::Change { d: 1, ver: 2003, t: 7 })];
        let sched = if n == 0 { vec![] } else { vec![("lock".to_string(), 1003, 150), ("lock".to_string(), 2002, 200)] };
        let kl = rng.below(pool.len());
        out.push(Case { lang, idx: base + 12 + n, steps, texts, cfgs: vec!["{}".to_string(), pool[kl].to_string()], sched, initial_cfg: if n == 0 { None } else { Some(1) },
            poison: false, burst: false, max_latency: None });
    }
    out
}

/// Merlin documents inside a workspace folder on disk: the server keeps scan data per document (linker
/// detection, ENT / PUT / USE maps) which an edit must refresh before the edit is analysed
fn workspace_cases(base: usize) -> Vec<Case> {
    let lang = Lang::Merlin;
    let linker = "         LNK   A.L\n         LNK   B.L\n         ASM   C.S\n";
    let source = "START    LDA   #$00\n         JMP   NOWHERE\n         BNE   START\n";
    let mut out = Vec::new();
    for (n, (first, last)) in [(linker, source), (source, linker), (source, source)].iter().enumerate() {
        let texts = vec![tag_text(lang, 0, first.to_string()), tag_text(lang, 1, first.to_string()), tag_text(lang, 2, last.to_string())];
        let steps = vec![(0, Act::Open { d: 0, ver: 1001, t: 0 }), (150, Act::Change { d: 0, ver: 1002, t: 1 }), (150, Act::Change { d: 0, ver: 1003, t: 2 }), (0, Act::Req { kind: 2, d: 0, line: 0, ch: 0 })];
        out.push(Case { lang, idx: base + n, steps, texts, cfgs: vec!["{}".to_string()], sched: vec![], initial_cfg: None, poison: false, burst: false, max_latency: None });
    }
    out
}

// ------------------------------------------------------------------------------------------------
// running one case
// ------------------------------------------------------------------------------------------------

#[derive(Clone, Debug)]
struct LogLine { tag: String, id: usize, uri: String, ver: i64 }

struct Obs {
    started: bool,
    hooks: bool,
    alive_end: bool,
    log: Vec<LogLine>,
    pubs: Vec<(u64, String, Option<i64>, String)>,
    req_sent: Vec<(i64, u64, usize)>,
    req_answered: Vec<(i64, u64)>,
    probe_published: bool,
    probe_request_answered: bool,
    stderr: String,
    live_at_end: bool,
    /// an event line on stderr was cut up by other output
    garbled: bool,
    /// jobs that obtained the analyzer and had not left it when the (generous) wait for quiescence ran out:
    /// (job id, uri, version, ms since it got the analyzer)
    hung: Vec<(usize, String, i64, u64)>,
    /// index (into `case.cfgs`) of the settings the client sent last (0 = never sent any)
    final_cfg: usize,
    /// per document: (last version sent, text id, diagnostics of a fresh single-document server that was
    /// given the final settings)
    fresh: BTreeMap<usize, (i64, usize, Option<String>)>,
    /// fixed schedule (b): per request sent while the first analysis held the mutex,
    /// (latency ms, answer came only after that analysis' own publication on the wire)
    blocked: Vec<(u64, bool)>,
}

/// the hook event lines on the server's standard error
fn read_log(stderr: &str) -> Vec<LogLine> {
    let mut out = Vec::new();
    for l in stderr.lines() {
        let p: Vec<&str> = l.split('\t').collect();
        if p.len() == 5 && p[0] == "a2kit-verif" {
            out.push(LogLine { tag: p[1].to_string(), id: p[2].parse().unwrap_or(usize::MAX), uri: p[3].to_string(), ver: p[4].parse().unwrap_or(-1) });
        }
    }
    out
}

/// The panic message of a dying thread is written to the raw stderr without the lock `eprintln!` takes, so
/// it can land in the middle of an event line: a log with a line that mentions the hook prefix but is
/// not a well-formed event is not evidence (the case is run again).
fn log_garbled(stderr: &str) -> bool {
    stderr.lines().any(|l| {
        if !l.contains("a2kit-verif") || l.contains("a2kit_verif: injected panic") { return false; }
        let p: Vec<&str> = l.split('\t').collect();
        !(p.len() == 5 && p[0] == "a2kit-verif" && p[2].parse::<usize>().is_ok() && p[4].parse::<i64>().is_ok())
    })
}

fn without_log(stderr: &str) -> String {
    stderr.lines().filter(|l| !l.starts_with("a2kit-verif\t")).collect::<Vec<_>>().join("\n")
}

fn cfg_value(case: &Case, cfg: usize) -> json::JsonValue {
    json::parse(&case.cfgs[cfg]).unwrap_or(json::object! {})
}

fn run_case(bin_dir: &str, case: &Case, tag: &str) -> Obs {
    let _ = tag;
    let mut obs = Obs { started: false, hooks: false, alive_end: false, log: vec![], pubs: vec![], req_sent: vec![], req_answered: vec![],
        probe_published: false, probe_request_answered: false, stderr: String::new(), live_at_end: true, garbled: false, hung: vec![], final_cfg: 0, fresh: BTreeMap::new(), blocked: vec![] };
    let envs = vec![("A2KIT_VERIF_LOG".to_string(), "stderr".to_string()), ("A2KIT_VERIF_SCHED".to_string(), case.sched_string())];
    let mut c = match Client::spawn(&format!("{}/{}", bin_dir, case.lang.exe()), &envs) { Some(c) => c, None => return obs };
    if let Some(dir) = ws_dir(case.idx) {
        // the workspace folder on disk: every document with the first text the client will send for it
        let _ = std::fs::remove_dir_all(&dir);
        let _ = std::fs::create_dir_all(&dir);
        for (_, a) in &case.steps { if let Act::Open { d, t, .. } = a { let p = dir.join(format!("DOC{}.S", d)); if !p.exists() { let _ = std::fs::write(p, &case.texts[*t]); } } }
    }
    if !c.initialize_ws(ws_folder_uri(case.idx)) { obs.stderr = without_log(&c.stderr_text()); c.shutdown(); return obs; }
    obs.started = true;
    let mut live = true;
    if let Some(k) = case.initial_cfg { if c.answer_config(0, cfg_value(case, k)) { obs.final_cfg = k; live = cfg_is_live(&case.cfgs[k]); } }
    let mut total_delay: u64 = case.sched.iter().filter(|(t, _, _)| t != "panic").map(|(_, _, ms)| *ms).sum();
    let mut last_sent: BTreeMap<usize, i64> = BTreeMap::new();
    let mut last_text: BTreeMap<usize, usize> = BTreeMap::new();
    let mut expect_launch = 0usize;
    let mut open_docs: HashSet<usize> = HashSet::new();
    for (gap, act) in &case.steps {
        if *gap > 0 { std::thread::sleep(Duration::from_millis(*gap)); }
        match act {
            Act::Open { d, ver, t } => { did_open(&mut c, &uri_of(case.lang, case.idx, *d), *ver, &case.texts[*t]); last_sent.insert(*d, *ver); last_text.insert(*d, *t); expect_launch += 1; open_docs.insert(*d); }
            Act::Change { d, ver, t } => { did_change(&mut c, &uri_of(case.lang, case.idx, *d), *ver, &case.texts[*t]); if live { last_sent.insert(*d, *ver); last_text.insert(*d, *t); expect_launch += 1; } }
            Act::Close { d } => { did_close(&mut c, &uri_of(case.lang, case.idx, *d)); open_docs.remove(d); }
            Act::Req { kind, d, line, ch } => {
                let now = c.now();
                let id = send_request(&mut c, *kind, &uri_of(case.lang, case.idx, *d), *line, *ch);
                obs.req_sent.push((id, now, *kind));
            }
            Act::Config { cfg } => {
                let from = c.msg_count();
                c.notify("workspace/didChangeConfiguration", json::object! { "settings": json::Null });
                if c.answer_config(from, cfg_value(case, *cfg)) { live = cfg_is_live(&case.cfgs[*cfg]); obs.final_cfg = *cfg; expect_launch += open_docs.len(); }
                total_delay += 400; // the handler may wait for the mutex
            }
        }
    }
    obs.live_at_end = live;
    // quiescence: all launched jobs harvested (hooks) / last versions published (black box)
    // generous: the loop leaves as soon as the server is quiescent
    let budget = 20_000 + 600 * (expect_launch as u64 + 4) + 3 * total_delay;
    let t = Instant::now();
    loop {
        std::thread::sleep(Duration::from_millis(40));
        let log = read_log(&c.stderr_text());
        if !log.is_empty() {
            let launched = log.iter().filter(|l| l.tag.starts_with("launch")).count();
            let harvested = log.iter().filter(|l| l.tag == "harvest").count();
            if launched == harvested && launched >= expect_launch && t.elapsed().as_millis() > 150 { break; }
        } else if case.poison {
            if t.elapsed().as_millis() as u64 > 3000 + total_delay { break; }   // black box: nothing to wait for
        } else {
            let pubs = c.publications();
            let done = last_sent.iter().all(|(d, v)| pubs.iter().any(|p| p.1 == uri_of(case.lang, case.idx, *d) && p.2 == Some(*v)));
            if done && t.elapsed().as_millis() > 250 { break; }
        }
        if t.elapsed().as_millis() as u64 > budget {
            // who is still inside the analyzer?
            let holding: Vec<usize> = log.iter().filter(|l| l.tag == "acquire" && !log.iter().any(|x| (x.tag == "finish" || x.tag == "die") && x.id == l.id)).map(|l| l.id).collect();
            for id in holding {
                if let Some(l) = log.iter().find(|l| l.tag.starts_with("launch") && l.id == id) { obs.hung.push((id, l.uri.clone(), l.ver, t.elapsed().as_millis() as u64)); }
            }
            break;
        }
    }
    // outstanding requests
    for (id, _, _) in obs.req_sent.clone() { let _ = c.has_response(id, T_REQ); }
    {
        let g = c.msgs.lock().unwrap();
        for (id, _, _) in &obs.req_sent {
            if let Some((t, _)) = g.iter().find(|(_, m)| m["id"].as_i64() == Some(*id) && m["method"].is_null()) { obs.req_answered.push((*id, *t)); }
        }
    }
    if case.max_latency.is_some() {
        // position on the wire of the publication of the job that held the mutex (first launch)
        let g = c.msgs.lock().unwrap();
        let held_uri = uri_of(case.lang, case.idx, 0);
        let pub_pos = g.iter().position(|(_, m)| m["method"] == "textDocument/publishDiagnostics" && m["params"]["uri"] == held_uri.as_str());
        for (id, ts, _) in &obs.req_sent {
            if let Some(pos) = g.iter().position(|(_, m)| m["id"].as_i64() == Some(*id) && m["method"].is_null()) {
                let lat = g[pos].0.saturating_sub(*ts);
                obs.blocked.push((lat, matches!(pub_pos, Some(pp) if pp < pos)));
            }
        }
    }
    // the `harvest` line precedes the `publish` line, which precedes the bytes on the wire
    std::thread::sleep(Duration::from_millis(60));
    obs.log = read_log(&c.stderr_text());
    obs.hooks = !obs.log.is_empty();
    let want = obs.log.iter().filter(|l| l.tag == "publish").count();
    let t1 = Instant::now();
    while c.publications().len() < want && t1.elapsed() < Duration::from_millis(10_000) { std::thread::sleep(Duration::from_millis(10)); }
    obs.pubs = c.publications();
    // liveness probe: a request and a fresh edit on a new document (not part of the trace)
    let probe_uri = format!("file:///c18/k{}/probe.{}", case.idx, case.lang.ext());
    let probe_text = match case.lang { Lang::Merlin => " LDA #$01\n JMP NOWHERE\n", _ => "10 GOTO 20\n" };
    let rid = send_request(&mut c, 0, &uri_of(case.lang, case.idx, 0), 0, 3);
    obs.probe_request_answered = c.has_response(rid, T_REQ);
    did_open(&mut c, &probe_uri, 77, probe_text);
    obs.probe_published = c.wait_for_or_panic(|ms| ms.iter().any(|(_, m)| m["method"] == "textDocument/publishDiagnostics" && m["params"]["uri"] == probe_uri.as_str()),
        if case.poison { 1200 } else { T_PUBLISH });
    obs.alive_end = c.alive();
    obs.stderr = without_log(&c.stderr_text());
    obs.garbled = log_garbled(&c.stderr_text());
    if std::env::var("C18_KEEP_LOGS").is_ok() { let _ = std::fs::write(format!("c18-log-{}-{}.txt", case.lang.name(), case.idx), c.stderr_text()); }
    c.shutdown();
    if !case.poison {
        for (d, ver) in &last_sent {
            let t = last_text[d];
            let u = uri_of(case.lang, case.idx, *d);
            obs.fresh.insert(*d, (*ver, t, fresh_diags(bin_dir, case.lang, &u, &case.texts[t], &case.cfgs[obs.final_cfg], ws_folder_uri(case.idx))));
        }
    }
    obs
}

/// diagnostics a fresh server instance publishes for this text alone (same uri) after it has been given
/// the settings `cfg` (the answer is handled before the `didOpen`: the main thread is sequential)
fn fresh_diags(bin_dir: &str, lang: Lang, uri: &str, text: &str, cfg: &str, ws: Option<String>) -> Option<String> {
    let mut c = Client::spawn(&format!("{}/{}", bin_dir, lang.exe()), &[])?;
    if !c.initialize_ws(ws) { c.shutdown(); return None; }
    if cfg != "{}" && !c.answer_config(0, json::parse(cfg).unwrap_or(json::object! {})) { c.shutdown(); return None; }
    did_open(&mut c, uri, 1, text);
    let u = uri.to_string();
    let ok = c.wait_for_or_panic(|ms| ms.iter().any(|(_, m)| m["method"] == "textDocument/publishDiagnostics" && m["params"]["uri"] == u.as_str()), T_PUBLISH);
    let ans = if ok { c.publications().into_iter().filter(|p| p.1 == uri).last().map(|p| p.3) } else { None };
    c.shutdown();
    ans
}

/// `guarded(f)` on a thread of its own with a time limit: an analysis that does not come back (an endless
/// loop in the analyzer is as silent a death as a panic: the thread never releases the shared analyzer) is
/// reported as `Err("HANG …")`; the thread is left behind, the process ends anyway when the family is done.
fn watchdog<T: Send + 'static>(limit_ms: u64, f: impl FnOnce() -> T + Send + 'static) -> Result<T, String> {
    let (tx, rx) = std::sync::mpsc::channel();
    let h = std::thread::Builder::new().stack_size(64 << 20).spawn(move || { let _ = tx.send(guarded(f)); });
    if h.is_err() { return Err("HANG could not start the analysis thread".to_string()); }
    match rx.recv_timeout(Duration::from_millis(limit_ms)) {
        Ok(r) => r,
        Err(_) => Err(format!("HANG analysis did not return within {} ms", limit_ms)),
    }
}
/// normal analyses of the texts used here take milliseconds; the slowest kind (one huge line) is super-linear,
/// hence the per-byte share
fn hang_limit(len: usize) -> u64 { 10_000 + 5 * len as u64 }
fn is_hang(e: &str) -> bool { e.starts_with("HANG") }
/// Every analysis that does not return leaves a spinning thread behind and costs the whole time limit: after
/// three of them per language the in-process references for that language are switched off for the rest of
/// the run (three concrete inputs have been reported by then; the real servers are still driven).
static HANGS: [std::sync::atomic::AtomicUsize; 3] = [std::sync::atomic::AtomicUsize::new(0), std::sync::atomic::AtomicUsize::new(0), std::sync::atomic::AtomicUsize::new(0)];
fn note_hang(lang: Lang) { HANGS[lang.idx()].fetch_add(1, std::sync::atomic::Ordering::SeqCst); }
fn too_many_hangs(lang: Lang) -> bool { HANGS[lang.idx()].load(std::sync::atomic::Ordering::SeqCst) >= 3 }

/// Diagnostics as a JSON value, with the one hash-order dependent text made canonical: the Applesoft
/// collision message lists the colliding names in `HashSet` iteration order, which differs from analysis
/// to analysis even for the same text (determinism of LSP messages is C20's business, not C18's).
fn canon_diags(mut v: serde_json::Value) -> serde_json::Value {
    if let Some(a) = v.as_array_mut() {
        for d in a.iter_mut() {
            let m = d.get("message").and_then(|m| m.as_str()).map(|m| m.to_string());
            if let Some(m) = m {
                if let Some(rest) = m.strip_prefix("variable name collision:\n") {
                    let mut names: Vec<&str> = rest.split(',').collect();
                    names.sort();
                    d["message"] = serde_json::Value::String(format!("variable name collision:\n{}", names.join(",")));
                }
            }
        }
    }
    v
}
fn canon_str(s: &str) -> serde_json::Value { canon_diags(serde_json::from_str::<serde_json::Value>(s).unwrap_or(serde_json::Value::Null)) }

/// `analyze` + `get_diags` of a NEW analyzer that was given the settings `cfg`, on this text alone
/// (library call in this process, exactly what an analysis thread does with its analyzer):
/// `Ok(None)` = `analyze` returned `Err`, `Err` = it panicked
fn inproc_diags(lang: Lang, cfg: &str, uri: &str, text: &str, ws: Option<String>) -> Result<Option<serde_json::Value>, String> {
    let folders: Vec<lsp_types::Url> = ws.iter().filter_map(|w| lsp_types::Url::parse(w).ok()).collect();
    let url = match lsp_types::Url::parse(uri) { Ok(u) => a2kit::lang::normalize_client_uri(u), Err(e) => return Err(format!("bad uri {}", e)) };
    let doc = a2kit::lang::Document { uri: url, version: Some(1), text: text.to_string() };
    let cfg = cfg.to_string();
    watchdog(hang_limit(text.len()), move || match lang {
        Lang::Applesoft => { let mut a = a2kit::lang::applesoft::diagnostics::Analyzer::new(); let _ = a.update_config(&cfg);
            match a.analyze(&doc) { Ok(()) => serde_json::to_value(a.get_diags(&doc)).ok().map(canon_diags), Err(_) => None } }
        Lang::Integer => { let mut a = a2kit::lang::integer::diagnostics::Analyzer::new(); let _ = a.update_config(&cfg);
            match a.analyze(&doc) { Ok(()) => serde_json::to_value(a.get_diags(&doc)).ok().map(canon_diags), Err(_) => None } }
        Lang::Merlin => { let mut a = a2kit::lang::merlin::diagnostics::Analyzer::new(); let _ = a.update_config(&cfg);
            // what the server does at start-up and in the analysis thread of a `didOpen`
            if !folders.is_empty() { let _ = a.init_workspace(folders.clone(), Vec::new()); }
            let _ = a.rescan_workspace_and_update(vec![doc.clone()]);
            match a.analyze(&doc) { Ok(()) => serde_json::to_value(a.get_diags(&doc)).ok().map(canon_diags), Err(_) => None } }
    })
}

/// ONE analyzer with the settings `cfg` analyses the texts of `seq` (uri, text) one after the other, as
/// the shared analyzer of a server does: the diagnostics of the last one.  Used only to name the failure
/// class when the last publication differs from the fresh analysis.
fn inproc_history(lang: Lang, cfg: &str, seq: &[(String, String)], ws: Option<String>) -> Option<serde_json::Value> {
    let folders: Vec<lsp_types::Url> = ws.iter().filter_map(|w| lsp_types::Url::parse(w).ok()).collect();
    let docs: Vec<a2kit::lang::Document> = seq.iter().filter_map(|(u, t)| lsp_types::Url::parse(u).ok().map(|u| a2kit::lang::Document { uri: a2kit::lang::normalize_client_uri(u), version: Some(1), text: t.clone() })).collect();
    if docs.len() != seq.len() || docs.is_empty() { return None; }
    let cfg = cfg.to_string();
    let total: usize = docs.iter().map(|d| d.text.len()).sum();
    watchdog(hang_limit(total), move || {
        let cfg = cfg.as_str();
        let mut last = None;
        match lang {
            Lang::Applesoft => { let mut a = a2kit::lang::applesoft::diagnostics::Analyzer::new(); let _ = a.update_config(cfg);
                for d in &docs { last = match a.analyze(d) { Ok(()) => serde_json::to_value(a.get_diags(d)).ok().map(canon_diags), Err(_) => None }; } }
            Lang::Integer => { let mut a = a2kit::lang::integer::diagnostics::Analyzer::new(); let _ = a.update_config(cfg);
                for d in &docs { last = match a.analyze(d) { Ok(()) => serde_json::to_value(a.get_diags(d)).ok().map(canon_diags), Err(_) => None }; } }
            Lang::Merlin => { let mut a = a2kit::lang::merlin::diagnostics::Analyzer::new(); let _ = a.update_config(cfg);
                if !folders.is_empty() { let _ = a.init_workspace(folders.clone(), Vec::new()); }
                let mut seen: Vec<a2kit::lang::Document> = Vec::new();
                for d in &docs {
                    // `didOpen`: gather + all checkpoints + scan; `didChange`: scan of what is buffered
                    if seen.iter().any(|x| x.uri == d.uri) { for x in seen.iter_mut() { if x.uri == d.uri { *x = d.clone(); } } let _ = a.rescan_workspace(false); }
                    else { seen.push(d.clone()); let _ = a.rescan_workspace_and_update(seen.clone()); }
                    last = match a.analyze(d) { Ok(()) => serde_json::to_value(a.get_diags(d)).ok().map(canon_diags), Err(_) => None }; } }
        }
        last
    }).ok().flatten()
}

/// memo of `inproc_diags` per (text id, settings id) of one case
struct Fresh<'a> { case: &'a Case, memo: HashMap<(usize, usize), Result<Option<serde_json::Value>, String>>, hung: HashMap<usize, String> }
impl<'a> Fresh<'a> {
    fn new(case: &'a Case) -> Self { Fresh { case, memo: HashMap::new(), hung: HashMap::new() } }
    fn get(&mut self, d: usize, t: usize, cfg: usize) -> Result<Option<serde_json::Value>, String> {
        let case = self.case;
        // a text on which the analysis did not return is not tried again under other settings
        if let Some(e) = self.hung.get(&t) { return Err(e.clone()); }
        if !self.memo.contains_key(&(t, cfg)) {
            if too_many_hangs(case.lang) { return Err("SKIPPED in-process reference switched off after three analyses that did not return".to_string()); }
            let r = inproc_diags(case.lang, &case.cfgs[cfg], &uri_of(case.lang, case.idx, d), &case.texts[t], ws_folder_uri(case.idx));
            if let Err(e) = &r { if is_hang(e) { self.hung.insert(t, e.clone()); note_hang(case.lang); } }
            self.memo.insert((t, cfg), r);
        }
        self.memo.entry((t, cfg)).or_insert_with(|| inproc_diags(case.lang, &case.cfgs[cfg], &uri_of(case.lang, case.idx, d), &case.texts[t], ws_folder_uri(case.idx))).clone()
    }
    /// settings ids under which a new analyzer reproduces `published` from text `t` alone
    fn candidates(&mut self, d: usize, t: usize, published: &serde_json::Value) -> Vec<usize> {
        (0..self.case.cfgs.len()).filter(|c| matches!(self.get(d, t, *c), Ok(Some(v)) if v == *published)).collect()
    }
}

// ------------------------------------------------------------------------------------------------
// trace for the Lean model
// ------------------------------------------------------------------------------------------------

fn is_main(tag: &str) -> bool { tag.starts_with("launch") || tag == "harvest" || tag == "publish" }

/// what the client sent, aligned with the log: emits the tokens of messages that launch nothing as
/// early as possible (they commute with the thread events) and stops at the next message that launches
/// jobs or is a configuration answer (`W:c` is emitted when one is reached: from there on the main thread
/// is in, or on its way into, the first half of the configuration handler)
struct Align<'a> { case: &'a Case, sent: Vec<Act>, si: usize, live: bool, open: Vec<usize>, w_emitted: bool, toks: Vec<String> }
impl<'a> Align<'a> {
    fn flush(&mut self) {
        while self.si < self.sent.len() {
            match &self.sent[self.si] {
                Act::Close { d } => { self.toks.push(format!("X:{}", d)); let dd = *d; self.open.retain(|x| *x != dd); }
                Act::Req { .. } => self.toks.push("R".to_string()),
                Act::Change { d, ver, t } if !self.live => self.toks.push(format!("C:{}:{}:{}", d, ver, t)),
                Act::Config { cfg } => { if !self.w_emitted { self.toks.push(format!("W:{}", cfg)); self.w_emitted = true; } return; }
                _ => return,
            }
            self.si += 1;
        }
    }
    /// a configuration answer that relaunches nothing (no document open) has no log line of its own
    fn silent_config(&mut self) -> bool {
        if self.si < self.sent.len() && self.open.is_empty() {
            if let Act::Config { cfg } = self.sent[self.si].clone() {
                let lv = cfg_is_live(&self.case.cfgs[cfg]);
                self.toks.push(format!("G:{}:{}:-", cfg, lv as u8));
                self.live = lv; self.si += 1; self.w_emitted = false;
                self.flush();
                return true;
            }
        }
        false
    }
}

/// returns (request line, implementation answer); `obs_k` = per publication of a case document (in wire
/// order) the settings ids under which a new analyzer reproduces it
fn build_trace(case: &Case, obs: &Obs, obs_k: &[Option<Vec<usize>>]) -> (String, String) {
    let log = &obs.log;
    let uri_idx = |u: &str| -> Option<usize> { (0..4).find(|d| uri_of(case.lang, case.idx, *d) == u) };
    // what the client sent, in order (the initial configuration answer comes first)
    let mut sent: Vec<Act> = Vec::new();
    if let Some(k) = case.initial_cfg { sent.push(Act::Config { cfg: k }); }
    for (_, a) in &case.steps { sent.push(a.clone()); }
    let mut al = Align { case, sent: sent.clone(), si: 0, live: true, open: Vec::new(), w_emitted: false, toks: Vec::new() };
    let mut consumed: HashSet<usize> = HashSet::new();
    let mut acquired: HashSet<usize> = HashSet::new();
    let mut died: HashSet<usize> = HashSet::new();
    let mut job_doc: HashMap<usize, (String, i64)> = HashMap::new();
    let mut job_text: HashMap<usize, usize> = HashMap::new();
    let mut err_texts: Vec<usize> = Vec::new();
    // harvest outcome per job: Some(true) published, Some(false) not
    let mut outcome: HashMap<usize, bool> = HashMap::new();
    for (i, l) in log.iter().enumerate() {
        if l.tag == "harvest" {
            let nxt = log.iter().skip(i + 1).find(|x| is_main(&x.tag));
            outcome.insert(l.id, matches!(nxt, Some(x) if x.tag == "publish"));
        }
    }
    al.flush();
    for (i, l) in log.iter().enumerate() {
        if consumed.contains(&i) { continue; }
        match l.tag.as_str() {
            "launch" | "launch-private" => {
                if l.tag == "launch" { while al.silent_config() {} }
                job_doc.insert(l.id, (l.uri.clone(), l.ver));
                if al.si >= al.sent.len() { al.toks.push(format!("?unexpected-launch:{}", l.id)); continue; }
                match al.sent[al.si].clone() {
                    Act::Open { d, ver, t } | Act::Change { d, ver, t } => {
                        let is_open = matches!(al.sent[al.si], Act::Open { .. });
                        if l.tag != "launch" || uri_idx(&l.uri) != Some(d) || l.ver != ver { al.toks.push(format!("?launch-mismatch:{}", l.id)); }
                        else { al.toks.push(format!("{}:{}:{}:{}", if is_open { "O" } else { "C" }, d, ver, t)); }
                        if is_open && !al.open.contains(&d) { al.open.push(d); }
                        job_text.insert(l.id, t);
                        al.si += 1;
                        al.flush();
                    }
                    Act::Config { cfg } => {
                        // one private job per open document; their order is the hash-map order
                        let n = al.open.len();
                        let mut order: Vec<usize> = Vec::new();
                        let mut j = i;
                        let mut bad = l.tag != "launch-private";
                        while order.len() < n && j < log.len() {
                            if log[j].tag == "launch-private" && !consumed.contains(&j) {
                                match uri_idx(&log[j].uri) { Some(d) => order.push(d), None => bad = true }
                                job_doc.insert(log[j].id, (log[j].uri.clone(), log[j].ver));
                                // text of the relaunched checkpoint: last text sent for that document
                                let d = uri_idx(&log[j].uri).unwrap_or(99);
                                let mut tt = 99999;
                                for a in sent.iter().take(al.si) { match a { Act::Open { d: dd, t, .. } | Act::Change { d: dd, t, .. } if *dd == d => tt = *t, _ => {} } }
                                job_text.insert(log[j].id, tt);
                                consumed.insert(j);
                            } else if log[j].tag == "launch" { bad = true; break; }
                            j += 1;
                        }
                        let lv = cfg_is_live(&case.cfgs[cfg]);
                        if bad || order.len() != n { al.toks.push(format!("?config-mismatch:{}", l.id)); }
                        else { al.toks.push(format!("G:{}:{}:{}", cfg, lv as u8, order.iter().map(|d| d.to_string()).collect::<Vec<_>>().join(","))); }
                        al.live = lv;
                        al.si += 1;
                        al.w_emitted = false;
                        al.flush();
                    }
                    _ => al.toks.push(format!("?unexpected-launch:{}", l.id)),
                }
            }
            "acquire" => { acquired.insert(l.id); al.toks.push(format!("A:{}", l.id)); }
            "finish" => {
                let r = match outcome.get(&l.id) { Some(true) => "1", Some(false) => "0", None => "?" };
                if r == "0" { if let Some(t) = job_text.get(&l.id) { if !err_texts.contains(t) { err_texts.push(*t); } } }
                al.toks.push(format!("F:{}:{}", l.id, r));
            }
            "die" => { died.insert(l.id); al.toks.push(format!("D:{}", l.id)); }
            "exit" => { if !acquired.contains(&l.id) { al.toks.push(format!("E:{}", l.id)); } }
            "harvest" => {
                let k = if outcome.get(&l.id) == Some(&true) { "p" } else if died.contains(&l.id) { "e" } else { "n" };
                al.toks.push(format!("H:{}:{}", l.id, k));
            }
            "publish" => {
                // must be the publication of the job harvested just before, with that job's uri/version
                let prev = log.iter().take(i).rev().find(|x| is_main(&x.tag));
                let ok = match prev { Some(p) if p.tag == "harvest" => job_doc.get(&p.id) == Some(&(l.uri.clone(), l.ver)), _ => false };
                if !ok { al.toks.push("?publish-mismatch".to_string()); }
            }
            _ => al.toks.push(format!("?unknown-tag:{}", l.tag)),
        }
    }
    al.flush();
    while al.silent_config() {}
    if al.si < al.sent.len() { al.toks.push("?launch-missing".to_string()); }
    // observations about the publications
    for (i, k) in obs_k.iter().enumerate() {
        if let Some(c) = k { al.toks.push(format!("K:{}:{}", i, if c.is_empty() { "-".to_string() } else { c.iter().map(|x| x.to_string()).collect::<Vec<_>>().join(",") })); }
    }
    let toks = al.toks;
    // `F:id:?` (job never harvested) is accepted by nobody: keep the run honest
    let errs = if err_texts.is_empty() { "-".to_string() } else { err_texts.iter().map(|t| t.to_string()).collect::<Vec<_>>().join(",") };
    let req = format!("c18 trace {} {}", errs, toks.join(" "));
    // implementation side of the answer: what really went over the wire
    let mut pubs: Vec<String> = Vec::new();
    for (_, uri, ver, _) in &obs.pubs {
        let d = match uri_idx(uri) { Some(d) => d, None => continue }; // probe document
        let v = ver.unwrap_or(-1);
        pubs.push(format!("{}:{}:{}", d, v, text_of_version(&sent, d, v)));
    }
    let shared_died = log.iter().any(|l| l.tag == "die" && log.iter().any(|x| x.tag == "launch" && x.id == l.id));
    let launched = log.iter().filter(|l| l.tag.starts_with("launch")).count();
    let harvested = log.iter().filter(|l| l.tag == "harvest").count();
    let holding = log.iter().any(|l| l.tag == "acquire" && log.iter().any(|x| x.tag == "launch" && x.id == l.id)
        && !log.iter().any(|x| (x.tag == "finish" || x.tag == "die") && x.id == l.id));
    let lock = if shared_died { "poisoned" } else if holding { "held" } else { "free" };
    let ans = format!("ok pub={} lock={} queue={}", if pubs.is_empty() { "-".to_string() } else { pubs.join(",") }, lock, launched - harvested.min(launched));
    (req, ans)
}

/// text id of the version `v` the client sent for document `d` (99999 = none)
fn text_of_version(sent: &[Act], d: usize, v: i64) -> usize {
    let mut t = 99999;
    for a in sent { match a { Act::Open { d: dd, ver: vv, t: tt } | Act::Change { d: dd, ver: vv, t: tt } if *dd == d && *vv == v => t = *tt, _ => {} } }
    t
}

// ------------------------------------------------------------------------------------------------
// oracles for one history case
// ------------------------------------------------------------------------------------------------

/// buffered verdicts of one case, so that a case can be re-run before anything is reported
#[derive(Default)]
struct Rep {
    oracles: Vec<(bool, String, String, String, bool)>,   // pass, name, sig, case, timing-dependent
    qs: Vec<(String, String)>,
    counts: Vec<(String, u64)>,
    cases: Vec<(Vec<u8>, bool)>,
    samples: Vec<String>,
}
impl Rep {
    fn count(&mut self, k: &str) { self.counts.push((k.to_string(), 1)); }
    fn count_n(&mut self, k: &str, n: u64) { self.counts.push((k.to_string(), n)); }
    fn oracle(&mut self, pass: bool, name: &str, sig: &str, case: &str) { self.oracles.push((pass, name.to_string(), sig.to_string(), case.to_string(), false)); }
    /// a verdict that a descheduled server or harness could produce by itself (a wait that ran out)
    fn oracle_t(&mut self, pass: bool, name: &str, sig: &str, case: &str) { self.oracles.push((pass, name.to_string(), sig.to_string(), case.to_string(), true)); }
    fn q(&mut self, r: &str, a: &str) { self.qs.push((r.to_string(), a.to_string())); }
    fn case(&mut self, c: &[u8], nt: bool) { self.cases.push((c.to_vec(), nt)); }
    fn sample(&mut self, s: &str) { self.samples.push(s.to_string()); }
    fn failed(&self) -> bool { self.oracles.iter().any(|o| !o.0) }
    /// re-run only if every failure is of the timing-dependent kind
    fn wants_rerun(&self) -> bool { self.failed() && self.oracles.iter().filter(|o| !o.0).all(|o| o.4) }
    fn emit(self, out: &mut Out) {
        for (k, n) in self.counts { out.count_n(&k, n); }
        for (p, n, s, c, _) in self.oracles { out.oracle(p, &n, &s, &c); }
        for (r, a) in self.qs { out.q(&r, &a); }
        for (c, nt) in self.cases { out.case(&c, nt); }
        for s in self.samples { out.sample(&s); }
    }
}

fn judge_case(case: &Case, obs: &Obs) -> Rep {
    let srv = case.lang.name();
    let desc = case.describe();
    let mut rep = Rep::default();
    let out = &mut rep;
    out.count(&format!("srv:{}", srv));
    out.count(if obs.hooks { "mode:hooks" } else { "mode:black-box(no hooks compiled in)" });
    if case.burst { out.count("shape:burst"); }
    if case.poison { out.count("shape:injected-thread-death"); }
    out.count_n("launches", case.launches() as u64);
    out.count_n("publications", obs.pubs.len() as u64);
    if !obs.started {
        out.oracle_t(false, "server-starts", &format!("c18/{}/server-does-not-start", srv), &format!("{} stderr={}", desc, obs.stderr.chars().take(200).collect::<String>()));
        return rep;
    }
    // out-of-order completion really happened?
    if obs.hooks {
        let fin: Vec<usize> = obs.log.iter().filter(|l| l.tag == "finish").map(|l| l.id).collect();
        if fin.windows(2).any(|w| w[1] < w[0]) { out.count("schedule:out-of-order-completion"); }
        if obs.log.iter().any(|l| l.tag == "launch-private") { out.count("schedule:private-analyzer-relaunch"); }
        if obs.log.iter().any(|l| l.tag == "die") { out.count("schedule:thread-died"); }
    }
    // panics nobody asked for
    let injected = obs.stderr.contains("a2kit_verif: injected panic");
    let foreign_panic = obs.stderr.lines().filter(|l| l.contains("panicked at")).any(|l| !l.contains("verif_hooks"));
    if foreign_panic {
        let sig = panic_sig(&obs.stderr.lines().filter(|l| l.contains("panicked at") && !l.contains("verif_hooks")).collect::<Vec<_>>().join("\n")).unwrap_or("panic:?".to_string());
        out.oracle(false, "no-thread-dies", &sig, &format!("{} stderr={}", desc, obs.stderr.chars().take(300).collect::<String>()));
    } else {
        out.oracle(true, "no-thread-dies", "-", &format!("idx={}", case.idx));
    }
    // (i) version order per document
    let ndocs = 4;
    let mut order_ok = true;
    for d in 0..ndocs {
        let u = uri_of(case.lang, case.idx, d);
        let vs: Vec<i64> = obs.pubs.iter().filter(|p| p.1 == u).map(|p| p.2.unwrap_or(-1)).collect();
        // "in version order" = in the order in which the client sent the versions (a re-opened document may
        // restart its numbering): the published versions, without repetitions, are a subsequence of the sent ones
        let sent_vs: Vec<i64> = case.steps.iter().filter_map(|(_, a)| match a { Act::Open { d: dd, ver, .. } | Act::Change { d: dd, ver, .. } if *dd == d => Some(*ver), _ => None }).collect();
        let mut pos = 0usize;
        for v in &vs {
            if pos > 0 && sent_vs[pos - 1] == *v { continue; }       // the same version again (configuration re-analysis)
            match sent_vs.iter().skip(pos).position(|x| x == v) { Some(k) => pos += k + 1, None => { order_ok = false; break; } }
        }
        if obs.pubs.iter().any(|p| p.1 == u && p.2.is_none()) { order_ok = false; }
    }
    out.oracle(order_ok, "versions-in-order", &format!("c18/{}/version-order", srv), &desc);
    // requests answered
    let all_answered = obs.req_sent.iter().all(|(id, _, _)| obs.req_answered.iter().any(|(i, _)| i == id));
    out.oracle_t(all_answered && obs.probe_request_answered, "requests-answered", &format!("c18/{}/request-unanswered", srv), &desc);
    for (id, ts, _) in &obs.req_sent {
        if let Some((_, ta)) = obs.req_answered.iter().find(|(i, _)| i == id) { if ta.saturating_sub(*ts) < 150 { out.count("request:answered-within-150ms"); } else { out.count("request:answered-later"); } }
    }
    if let (Some(hold), true) = (case.max_latency, obs.hooks) {
        // the first analysis keeps the mutex for `hold` ms.  A main loop that waits for it answers only
        // after that analysis' publication and later than the hold; a free main loop answers at once.
        // Both signs are required, so a slow machine alone cannot produce the verdict.
        let limit = hold * 8 / 10;
        let worst = obs.blocked.iter().filter(|(lat, after)| *after && *lat > limit).map(|(lat, _)| *lat).max();
        out.oracle_t(worst.is_none(), "request-not-blocked-by-analysis", &format!("c18/{}/main-loop-waits-for-analysis", srv),
            &format!("{} hold-ms={} limit={} (latency,after-held-publication)={:?}", desc, hold, limit, obs.blocked));
    }
    out.oracle(obs.alive_end, "server-alive", &format!("c18/{}/server-died", srv), &format!("{} stderr={}", desc, obs.stderr.chars().take(200).collect::<String>()));
    let dead_analyzer = injected || foreign_panic;
    // with Merlin's live diagnostics switched off a change is (by design) not analysed until the next
    // configuration answer or save: "last published = last sent" is then left to the trace validation
    let live_off = case.live_off();
    if live_off { out.count("shape:merlin-live-diagnostics-off"); }
    out.count(&format!("settings:final={}", if obs.final_cfg == 0 { "defaults" } else { "non-default" }));
    // reference: a NEW analyzer with the given settings on the text alone (library call)
    let mut fresh = Fresh::new(case);
    let mut sent: Vec<Act> = Vec::new();
    for (_, a) in &case.steps { sent.push(a.clone()); }
    let uri_idx = |u: &str| -> Option<usize> { (0..4).find(|d| uri_of(case.lang, case.idx, *d) == u) };
    // per publication of a case document: the settings under which a new analyzer reproduces it
    let mut obs_k: Vec<Option<Vec<usize>>> = Vec::new();
    for (_, uri, ver, diags) in &obs.pubs {
        let d = match uri_idx(uri) { Some(d) => d, None => continue };
        let t = text_of_version(&sent, d, ver.unwrap_or(-1));
        // (documents in an on-disk workspace: the server's scan data is not part of the model; their
        //  publications are judged by the final oracle only)
        let k = match t { 99999 => None, _ if ws_dir(case.idx).is_some() || too_many_hangs(case.lang) => None, t => Some(fresh.candidates(d, t, &canon_str(diags))) };
        if let Some(c) = &k {
            if c.is_empty() { out.count("publication:matches-no-settings"); }
            else if c.len() < case.cfgs.len() { out.count("publication:settings-distinguishable"); }
        }
        obs_k.push(k);
    }
    // an analysis that never returns keeps the shared analyzer for good: every later analysis blocks, nothing
    // is published any more, silently.  Seen as a job that got the analyzer and had not left it when the
    // generous wait for quiescence ran out; definitive (not re-run) if a NEW analyzer in this process does not
    // return on that job's text either.
    if obs.hung.is_empty() { out.oracle(true, "analysis-finishes", "-", &format!("idx={}", case.idx)); }
    else {
        // (after three confirmed hangs of this language in this run the library reference is switched off)
        let mut confirmed = too_many_hangs(case.lang);
        for (_, uri, ver, _) in &obs.hung {
            if let Some(d) = uri_idx(uri) { let t = text_of_version(&sent, d, *ver); if t != 99999 { if let Err(e) = fresh.get(d, t, 0) { if is_hang(&e) { confirmed = true; } } } }
        }
        let txt = format!("{} jobs-still-holding-the-analyzer(id,uri,version,ms)={:?} requests-still-answered={} library-analysis-of-that-text-hangs-too={}", desc, obs.hung, obs.probe_request_answered, confirmed);
        if confirmed { out.oracle(false, "analysis-finishes", &format!("c18/{}/analysis-never-finishes", srv), &txt); }
        else { out.oracle_t(false, "analysis-finishes", &format!("c18/{}/analysis-never-finishes", srv), &txt); }
    }
    if !dead_analyzer {
        // still publishes for a new edit
        out.oracle_t(obs.probe_published, "publishes-after-history", &format!("c18/{}/no-diagnostics-after-history", srv), &desc);
        // (ii) last publication = last version sent = analysis of the final text alone by a new analyzer
        //      with the settings the client sent last (library call, and a fresh server given those settings)
        // documents open at the end: the configuration handler re-analyses exactly these, so only for them is the
        // last publication bound to the LAST settings; a closed document keeps the publication of its last job,
        // which must still be the fresh analysis of its text under SOME settings the client sent
        let mut open_at_end: HashSet<usize> = HashSet::new();
        for a in &sent { match a { Act::Open { d, .. } => { open_at_end.insert(*d); } Act::Close { d } => { open_at_end.remove(d); } _ => {} } }
        for (d, (ver, t, fresh_srv)) in obs.fresh.iter().filter(|_| !live_off) {
            let u = uri_of(case.lang, case.idx, *d);
            let is_open = open_at_end.contains(d);
            let lastp = obs.pubs.iter().filter(|p| p.1 == u).last();
            match lastp {
                Some(p) if p.2 == Some(*ver) => {
                    out.oracle(true, "last-is-latest", "-", &format!("idx={}", case.idx));
                    let got = canon_str(&p.3);
                    // failure class named by the library comparison; the fresh-server comparison reports the
                    // same class, so that one defect is one signature
                    let mut lib_sig: Option<String> = None;
                    match fresh.get(*d, *t, obs.final_cfg) {
                        Ok(Some(_)) if !is_open => {
                            let other = fresh.candidates(*d, *t, &got);
                            out.count("closed-document:checked-against-all-settings");
                            out.oracle(!other.is_empty(), "equals-fresh-analysis", &format!("c18/{}/diagnostics-depend-on-history", srv),
                                &format!("{} doc={} (closed) published-matches-settings={:?} got={}", desc, d, other, p.3.chars().take(400).collect::<String>()));
                        }
                        Ok(Some(want)) => {
                            let same = want == got;
                            if !same { out.count("fresh:differs"); }
                            // does the settings object matter for this text at all?
                            if obs.final_cfg != 0 { if let Ok(Some(dflt)) = fresh.get(*d, *t, 0) { out.count(if dflt != want { "settings:final-changes-final-diagnostics" } else { "settings:final-irrelevant-for-final-text" }); } }
                            let other = fresh.candidates(*d, *t, &got);
                            let contended = case.burst || case.sched.iter().any(|(k, _, _)| k == "hold" || k == "lock");
                            // name the failure class: does one analyzer with the RIGHT settings, fed the texts in the
                            // order they were sent, reproduce what was published?  Then the settings were applied
                            // and an earlier analysis leaked into this one.
                            let sig = if same { "-".to_string() } else {
                                let mut seq: Vec<(String, String)> = Vec::new();
                                for a in &sent { match a { Act::Open { d: dd, t: tt, .. } | Act::Change { d: dd, t: tt, .. } => { seq.push((uri_of(case.lang, case.idx, *dd), case.texts[*tt].clone())); if *dd == *d && *tt == *t { break; } } _ => {} } }
                                let hist = inproc_history(case.lang, &case.cfgs[obs.final_cfg], &seq, ws_folder_uri(case.idx));
                                if ws_dir(case.idx).is_some() && hist.as_ref() == Some(&got) { format!("c18/{}/workspace-scan-lags-one-version", srv) }
                                else if hist.as_ref() == Some(&got) || other.is_empty() { format!("c18/{}/diagnostics-depend-on-history", srv) }
                                else { format!("c18/{}/{}", srv, if contended { "config-lost-under-contention" } else { "last-settings-not-applied" }) }
                            };
                            if !same { lib_sig = Some(sig.clone()); }
                            out.oracle(same, "equals-fresh-analysis", &sig,
                                &format!("{} doc={} final-settings={} published-matches-settings={:?} got={} fresh={}", desc, d, obs.final_cfg, other,
                                    p.3.chars().take(400).collect::<String>(), want.to_string().chars().take(400).collect::<String>()));
                        }
                        Ok(None) => out.count("fresh:library-analysis-returned-err-but-server-published"),
                        Err(e) if is_hang(&e) => out.oracle(false, "equals-fresh-analysis", &format!("c18/{}/analysis-never-finishes", srv), &format!("{} doc={} {}", desc, d, e)),
                        Err(e) if e.starts_with("SKIPPED") => out.count("fresh:library-reference-switched-off-after-hangs"),
                        Err(e) => out.oracle(false, "equals-fresh-analysis", &inproc_panic_sig(&e), &format!("{} doc={} panic={}", desc, d, e.chars().take(200).collect::<String>())),
                    }
                    match fresh_srv.clone() {
                        _ if !is_open => {}
                        Some(f) => {
                            let same = canon_str(&f) == canon_str(&p.3);
                            if !same { out.count("fresh-server:differs"); }
                            // (if only the fresh server disagrees, the two references disagree with each other)
                            out.oracle(same, "equals-fresh-server", &lib_sig.clone().unwrap_or(format!("c18/{}/fresh-server-differs-from-library", srv)),
                                &format!("{} doc={} final-settings={} got={} fresh={}", desc, d, obs.final_cfg, p.3.chars().take(300).collect::<String>(), f.chars().take(300).collect::<String>()));
                        }
                        None => out.oracle_t(false, "equals-fresh-server", &format!("c18/{}/fresh-server-publishes-nothing", srv), &format!("{} doc={}", desc, d)),
                    }
                }
                // (a last publication with a HIGHER version than the last one sent: the document was re-opened with
                //  restarted version numbers and the new versions never got diagnostics)
                Some(p) => out.oracle_t(false, "last-is-latest", &format!("c18/{}/{}", srv, if p.2.unwrap_or(-1) > *ver { "no-diagnostics-after-reopen-with-lower-version" } else { "stale-diagnostics-after-burst" }),
                    &format!("{} doc={} last-published-version={:?} last-sent={}", desc, d, p.2, ver)),
                None => out.oracle_t(false, "last-is-latest", &format!("c18/{}/no-diagnostics-for-document", srv), &format!("{} doc={} last-sent={}", desc, d, ver)),
            }
        }
    } else if injected {
        // the model's prediction for a poisoned analyzer is checked by the trace; black-box: nothing new comes out
        out.count("poison:probe-silent");
        if obs.probe_published { out.count("poison:probe-still-published"); }
    }
    // model vs implementation
    if obs.hooks {
        let (req, ans) = build_trace(case, obs, &obs_k);
        // a trace cut short by a wait that ran out (job never harvested, launch never seen) is not evidence
        let incomplete = req.contains(":?") || req.contains("?launch-missing");
        if obs.garbled {
            out.count("trace:garbled-by-panic-output");
            out.oracle_t(false, "trace-complete", &format!("c18/{}/trace-garbled", srv), &format!("{} trace={}", desc, req.chars().take(400).collect::<String>()));
        } else if incomplete {
            out.oracle_t(false, "trace-complete", &format!("c18/{}/trace-incomplete", srv), &format!("{} trace={}", desc, req.chars().take(400).collect::<String>()));
        } else {
            out.oracle(true, "trace-complete", "-", &format!("idx={}", case.idx));
            if req.contains(" W:") { out.count("trace:with-settings-answer"); }
            out.q(&req, &ans);
        }
    }
    let canon = format!("{}|{}", desc, obs.hooks);
    out.case(canon.as_bytes(), case.launches() >= 2);
    out.sample(&desc);
    rep
}

// ------------------------------------------------------------------------------------------------
// robustness stream
// ------------------------------------------------------------------------------------------------

const IGNORE_ALL: &str = r#"{"flag":{"caseSensitive":"ignore","terminalString":"ignore","collisions":"ignore","undeclaredArrays":"ignore","undefinedVariables":"ignore","badReferences":"ignore","extendedCall":"ignore","immediateMode":"ignore","unclosedFolds":"ignore"}}"#;
const ERROR_ALL: &str = r#"{"flag":{"caseSensitive":"error","terminalString":"error","collisions":"error","undeclaredArrays":"error","undefinedVariables":"error","badReferences":"error","extendedCall":"error","immediateMode":"error","unclosedFolds":"error"}}"#;

/// `cfg`: 0 default settings, 1 every optional diagnostic ignored, 2 every optional diagnostic an error
fn analyze_in_process(lang: Lang, text: &str, cfg: usize) -> Result<bool, String> {
    let doc = a2kit::lang::Document::from_string(text.to_string(), 1);
    let json = match cfg % 3 { 1 => Some(IGNORE_ALL), 2 => Some(ERROR_ALL), _ => None };
    let r = watchdog(hang_limit(text.len()), move || match lang {
        Lang::Applesoft => { let mut a = a2kit::lang::applesoft::diagnostics::Analyzer::new(); if let Some(j) = json { let _ = a.update_config(j); } let r = a.analyze(&doc).is_ok(); let _ = a.get_diags(&doc); r }
        Lang::Integer => { let mut a = a2kit::lang::integer::diagnostics::Analyzer::new(); if let Some(j) = json { let _ = a.update_config(j); } let r = a.analyze(&doc).is_ok(); let _ = a.get_diags(&doc); r }
        Lang::Merlin => { let mut a = a2kit::lang::merlin::diagnostics::Analyzer::new(); if let Some(j) = json { let _ = a.update_config(j); } let r = a.analyze(&doc).is_ok(); let _ = a.get_diags(&doc); r }
    });
    r
}

struct OddResult { idx: usize, kind: &'static str, len: usize, published: bool, answered: bool, alive: bool, stderr: String, inproc: Result<bool, String> }

/// one server instance per chunk; a document that silences or kills it is reported and the server restarted
fn run_odd_chunk(bin_dir: &str, lang: Lang, docs: &[(usize, String, &'static str, Result<bool, String>)]) -> Vec<OddResult> {
    let mut res = Vec::new();
    let mut client: Option<Client> = None;
    for (idx, text, kind, inproc) in docs {
        if client.is_none() {
            let mut c = match Client::spawn(&format!("{}/{}", bin_dir, lang.exe()), &[]) { Some(c) => c, None => continue };
            if !c.initialize() { c.shutdown(); continue; }
            client = Some(c);
        }
        let c = client.as_mut().unwrap();
        let t_doc = Instant::now();
        let uri = format!("file:///c18/odd/d{}.{}", idx, lang.ext());
        did_open(c, &uri, 1, text);
        let nlines = text.lines().count().max(1);
        let mut ids = Vec::new();
        for k in 0..5 { ids.push(send_request(c, k, &uri, (idx + k) % nlines, (idx * 7 + k) % 20)); }
        let u = uri.clone();
        let budget = T_PUBLISH + 4 * text.len() as u64;
        // (a panic message on stderr ends the wait: nothing will be published any more)
        let published = c.wait_for_or_panic(|ms| ms.iter().any(|(_, m)| m["method"] == "textDocument/publishDiagnostics" && m["params"]["uri"] == u.as_str()), budget);
        let mut answered = true;
        let t_req = Instant::now();
        for id in ids {
            let left = T_REQ.saturating_sub(t_req.elapsed().as_millis() as u64).max(50);
            if !c.has_response(id, left) { answered = false; }
        }
        let alive = c.alive();
        let stderr = c.stderr_text();
        let bad = !published || !answered || !alive;
        if std::env::var("C18_TIMING").is_ok() { eprintln!("c18: odd {} {} {} len={} took {:?}", lang.name(), idx, kind, text.len(), t_doc.elapsed()); }
        res.push(OddResult { idx: *idx, kind, len: text.len(), published, answered, alive, stderr: if bad { stderr } else { String::new() }, inproc: inproc.clone() });
        if bad { client.take().unwrap().shutdown(); }
        else { did_close(c, &uri); }
    }
    if let Some(c) = client { c.shutdown(); }
    res
}

// ------------------------------------------------------------------------------------------------
// entry
// ------------------------------------------------------------------------------------------------


pub fn run(ctx: &mut Ctx) {
    let bin_dir = match build_servers() {
        Ok(d) => d,
        Err(e) => {
            ctx.out.oracle(false, "servers-build", "c18/servers-do-not-build", &format!("idx=0 {}", e));
            return;
        }
    };
    let mut rng = Rng::new(ctx.seed ^ 0xC18);
    // ---- history cases ----
    let t_start = Instant::now();
    let n_hist = ctx.n(12, 80);
    let mut cases: Vec<Case> = Vec::new();
    for lang in Lang::all() {
        for k in 0..n_hist {
            let idx = lang.idx() * 1000 + k;
            let mut r = rng.fork(idx as u64);
            cases.push(gen_case(lang, idx, &mut r));
        }
        let mut r = rng.fork(9000 + lang.idx() as u64);
        cases.extend(fixed_cases(lang, 9000 + lang.idx() * 20, &mut r));
        if lang == Lang::Merlin { cases.extend(workspace_cases(9100)); }
    }
    let cases: Vec<Case> = cases.into_iter().filter(|c| ctx.out.wants(c.idx)).collect();
    // run them on a small pool (server processes mostly sleep); a case whose only failures are of the
    // timing-dependent kind is run again, up to two more times, and reported only if it fails every time
    let width = 10usize;
    let mut final_reps: BTreeMap<usize, Rep> = BTreeMap::new();
    let mut todo: Vec<usize> = (0..cases.len()).collect();
    for round in 0..3 {
        if todo.is_empty() { break; }
        let queue = Arc::new(Mutex::new(todo.iter().map(|i| (*i, cases[*i].clone())).collect::<Vec<_>>()));
        let results: Arc<Mutex<Vec<(usize, Obs)>>> = Arc::new(Mutex::new(Vec::new()));
        let mut hs = Vec::new();
        for _ in 0..width.min(todo.len()) {
            let queue = Arc::clone(&queue);
            let results = Arc::clone(&results);
            let bin_dir = bin_dir.clone();
            hs.push(std::thread::spawn(move || loop {
                let item = queue.lock().unwrap().pop();
                match item {
                    Some((i, case)) => { let o = run_case(&bin_dir, &case, "h"); results.lock().unwrap().push((i, o)); }
                    None => break,
                }
            }));
        }
        for h in hs { let _ = h.join(); }
        let results = std::mem::take(&mut *results.lock().unwrap());
        let mut again = Vec::new();
        for (i, obs) in &results {
            let rep = judge_case(&cases[*i], obs);
            if round > 0 { ctx.out.count(if rep.failed() { "retry:failed-again" } else { "retry:passed-on-rerun" }); }
            if rep.wants_rerun() && round < 2 {
                ctx.out.count("retry:history-rerun");
                eprintln!("c18: re-running idx={} ({})", cases[*i].idx, rep.oracles.iter().filter(|o| !o.0).map(|o| o.2.clone()).collect::<Vec<_>>().join(","));
                again.push(*i);
            } else {
                final_reps.insert(*i, rep);
            }
        }
        again.sort();
        todo = again;
    }
    for (_, rep) in final_reps { rep.emit(&mut ctx.out); }

    eprintln!("c18: histories done at {:?}", t_start.elapsed());
    // ---- robustness stream ----
    let n_odd = ctx.n(36, 600);
    let n_inproc = ctx.n(420, 8000);
    for lang in Lang::all() {
        let mut docs: Vec<(usize, String, &'static str, Result<bool, String>)> = Vec::new();
        let mut suspicious: Vec<(usize, String, &'static str, Result<bool, String>)> = Vec::new();
        for k in 0..n_inproc {
            let idx = 20000 + lang.idx() * 100000 + k;
            let mut r = rng.fork(idx as u64);
            let (text, kind) = odd_text(lang, k, &mut r);
            if !ctx.out.wants(idx) { continue; }
            if too_many_hangs(lang) { ctx.out.count("odd-inproc:skipped-after-three-hangs"); if docs.len() < n_odd && k < n_odd { docs.push((idx, text, kind, Ok(true))); } continue; }
            let t_in = Instant::now();
            let inproc = analyze_in_process(lang, &text, 0);
            if matches!(&inproc, Err(e) if is_hang(e)) { note_hang(lang); }
            // the same text under the two extreme settings (severity `None` / everything an error)
            for cfg in 1..3 {
                if (k + cfg) % 4 != 0 && !ctx.tier_thorough { continue; }
                if matches!(&inproc, Err(e) if is_hang(e)) { continue; }
                if let Err(p) = analyze_in_process(lang, &text, cfg) {
                    if is_hang(&p) { note_hang(lang); }
                    ctx.out.oracle(false, "odd-document-analysed-under-settings", &if is_hang(&p) { format!("c18/{}/analysis-never-finishes", lang.name()) } else { inproc_panic_sig(&p) },
                        &format!("idx={} srv={} kind={} settings={} panic={}", idx, lang.name(), kind, if cfg == 1 { "ignore-all" } else { "error-all" }, p.chars().take(200).collect::<String>()));
                } else { ctx.out.count("odd-inproc:settings-variant-ok"); }
            }
            if std::env::var("C18_TIMING").is_ok() && t_in.elapsed() > Duration::from_millis(300) { eprintln!("c18: inproc {} {} {} len={} took {:?}", lang.name(), idx, kind, text.len(), t_in.elapsed()); }
            ctx.out.count(&format!("odd:{}", kind));
            match &inproc {
                Ok(true) => {}
                Ok(false) => ctx.out.count("odd-inproc:analyze-returned-err"),
                Err(e) if is_hang(e) => {
                    ctx.out.count("odd-inproc:hang");
                    ctx.out.oracle(false, "analysis-terminates", &format!("c18/{}/analysis-never-finishes", lang.name()),
                        &format!("idx={} srv={} kind={} len={} {} text={}", idx, lang.name(), kind, text.len(), e, text.escape_debug().to_string().chars().take(300).collect::<String>()));
                }
                Err(_) => ctx.out.count("odd-inproc:panic"),
            }
            let interesting = !matches!(inproc, Ok(true));
            if interesting && std::env::var("C18_SHOW_TEXT").is_ok() { eprintln!("c18: odd idx={} {} {:?}\n{}", idx, lang.name(), inproc.as_ref().map_err(|e| panic_site(e)), text.escape_debug()); }
            if interesting { if suspicious.len() < 12 { suspicious.push((idx, text, kind, inproc)); } }
            else if docs.len() < n_odd && (k < n_odd || ctx.out.only.is_some()) { docs.push((idx, text, kind, inproc)); }
            else { ctx.out.case(format!("odd|{}|{}", lang.name(), idx).as_bytes(), true); }
        }
        eprintln!("c18: {} in-process done at {:?}", lang.name(), t_start.elapsed());
        // the real server: everything suspicious first, then the sample
        suspicious.extend(docs);
        let chunks: Vec<Vec<_>> = suspicious.chunks(suspicious.len().div_ceil(6).max(1)).map(|c| c.to_vec()).collect();
        let mut hs = Vec::new();
        for ch in chunks {
            let bin_dir = bin_dir.clone();
            hs.push(std::thread::spawn(move || run_odd_chunk(&bin_dir, lang, &ch)));
        }
        let mut all: Vec<OddResult> = Vec::new();
        for h in hs { if let Ok(v) = h.join() { all.extend(v); } }
        // a document whose only symptom is a wait that ran out (no panic, server alive) is tried again,
        // alone on a fresh server, up to two more times
        for r in all.iter_mut() {
            let mut tries = 0;
            while !(r.published && r.answered) && r.alive && panic_sig(&r.stderr).is_none() && tries < 2 && !matches!(&r.inproc, Err(e) if is_hang(e)) {
                tries += 1;
                ctx.out.count("retry:odd-document-rerun");
                if let Some(d) = suspicious.iter().find(|d| d.0 == r.idx) {
                    if let Some(n) = run_odd_chunk(&bin_dir, lang, std::slice::from_ref(d)).pop() { *r = n; }
                }
                ctx.out.count(if r.published && r.answered && r.alive { "retry:passed-on-rerun" } else { "retry:failed-again" });
            }
        }
        all.sort_by_key(|r| r.idx);
        for r in all {
            let srv = lang.name();
            let case = format!("idx={} srv={} kind={} len={} published={} answered={} alive={} inproc={:?} stderr={}", r.idx, srv, r.kind, r.len, r.published, r.answered, r.alive,
                r.inproc.as_ref().map_err(|e| panic_site(e)), r.stderr.chars().take(240).collect::<String>());
            let psig = panic_sig(&r.stderr);
            let ok = r.published && r.answered && r.alive;
            let sig = if ok { "-".to_string() } else if let Some(p) = psig { p } else if matches!(&r.inproc, Err(e) if is_hang(e)) { format!("c18/{}/analysis-never-finishes", srv) }
                else if !r.alive { format!("c18/{}/server-died", srv) }
                else if !r.published { format!("c18/{}/no-diagnostics-for-document", srv) } else { format!("c18/{}/request-unanswered", srv) };
            ctx.out.oracle(ok, "odd-document-served", &sig, &case);
            ctx.out.count("odd:sent-to-server");
            ctx.out.case(format!("odd|{}|{}", srv, r.idx).as_bytes(), true);
        }
    }
}
