//! harness family c18 (stub until the family is built)
use crate::util::*;

pub fn run(_ctx: &mut Ctx) {}
