//! harness family c18: the three language servers under arbitrary notification histories and
//! analysis-thread schedules.
//!
//! The server binaries are built from the working tree (`A2KIT_REPO`, default `/repo`) with
//! `--cfg a2kit_verif` into `./c18-target` and driven over stdio with LSP.  If the verification
//! hooks are compiled in (the server writes `A2KIT_VERIF_LOG`: event lines on its stderr), every case additionally yields an
//! event trace that is replayed through the Lean model (`c18 trace …`); otherwise the family runs in
//! black-box mode (oracles on the LSP traffic only) and says so in the `D` counters.
//!
//! Case streams: `hist` (generated histories, idx 0..), `fixed` (hand-made schedules, idx 9000..),
//! `odd` (robustness: broken/odd documents, idx 20000..).
use crate::util::*;
use a2kit::lang::server::Analysis;
use std::collections::{BTreeMap, HashMap, HashSet};
use std::io::{BufRead, BufReader, Read, Write};
use std::process::{Child, ChildStdin, Command, Stdio};
use std::sync::{Arc, Mutex};
use std::time::{Duration, Instant};

#[derive(Clone, Copy, PartialEq, Eq, Debug)]
enum Lang { Applesoft, Integer, Merlin }

impl Lang {
    fn all() -> [Lang; 3] { [Lang::Applesoft, Lang::Integer, Lang::Merlin] }
    fn exe(self) -> &'static str { match self { Lang::Applesoft => "server-applesoft", Lang::Integer => "server-integerbasic", Lang::Merlin => "server-merlin" } }
    fn name(self) -> &'static str { match self { Lang::Applesoft => "applesoft", Lang::Integer => "integerbasic", Lang::Merlin => "merlin" } }
    fn ext(self) -> &'static str { match self { Lang::Applesoft => "bas", Lang::Integer => "ibas", Lang::Merlin => "S" } }
    fn idx(self) -> usize { match self { Lang::Applesoft => 0, Lang::Integer => 1, Lang::Merlin => 2 } }
}

fn uri_of(lang: Lang, case: usize, d: usize) -> String { format!("file:///c18/k{}/doc{}.{}", case, d, lang.ext()) }

// ------------------------------------------------------------------------------------------------
// LSP client
// ------------------------------------------------------------------------------------------------

struct Client {
    child: Child,
    stdin: Option<ChildStdin>,
    msgs: Arc<Mutex<Vec<(u64, json::JsonValue)>>>,
    stderr: Arc<Mutex<String>>,
    t0: Instant,
    next_id: i64,
}

impl Client {
    fn spawn(exe: &str, envs: &[(String, String)]) -> Option<Client> {
        let mut cmd = Command::new(exe);
        cmd.stdin(Stdio::piped()).stdout(Stdio::piped()).stderr(Stdio::piped());
        cmd.env_remove("LD_PRELOAD").env_remove("A2KIT_VERIF_LOG").env_remove("A2KIT_VERIF_SCHED");
        cmd.env("RUST_BACKTRACE", "0");
        for (k, v) in envs { cmd.env(k, v); }
        crate::util::die_with_parent(&mut cmd);
        let mut child = cmd.spawn().ok()?;
        let stdin = child.stdin.take();
        let stdout = child.stdout.take()?;
        let stderr = child.stderr.take()?;
        let msgs = Arc::new(Mutex::new(Vec::new()));
        let errs = Arc::new(Mutex::new(String::new()));
        let t0 = Instant::now();
        {
            let msgs = Arc::clone(&msgs);
            std::thread::spawn(move || {
                let mut rd = BufReader::new(stdout);
                loop {
                    let mut len: Option<usize> = None;
                    loop {
                        let mut line = String::new();
                        match rd.read_line(&mut line) { Ok(0) | Err(_) => return, Ok(_) => {} }
                        let l = line.trim();
                        if l.is_empty() { break; }
                        let low = l.to_ascii_lowercase();
                        if let Some(v) = low.strip_prefix("content-length:") { len = v.trim().parse().ok(); }
                    }
                    let n = match len { Some(n) => n, None => return };
                    let mut buf = vec![0u8; n];
                    if rd.read_exact(&mut buf).is_err() { return; }
                    if let Ok(v) = json::parse(&String::from_utf8_lossy(&buf)) {
                        msgs.lock().unwrap().push((t0.elapsed().as_millis() as u64, v));
                    }
                }
            });
        }
        {
            let errs = Arc::clone(&errs);
            std::thread::spawn(move || {
                let mut rd = BufReader::new(stderr);
                let mut line = String::new();
                while let Ok(n) = rd.read_line(&mut line) {
                    if n == 0 { break; }
                    let mut g = errs.lock().unwrap();
                    if g.len() < 8_000_000 { g.push_str(&line); }
                    line.clear();
                }
            });
        }
        Some(Client { child, stdin, msgs, stderr: errs, t0, next_id: 100 })
    }
    fn send(&mut self, v: json::JsonValue) -> bool {
        let body = v.dump();
        match self.stdin.as_mut() {
            Some(w) => w.write_all(format!("Content-Length: {}\r\n\r\n{}", body.len(), body).as_bytes()).and_then(|_| w.flush()).is_ok(),
            None => false,
        }
    }
    fn notify(&mut self, method: &str, params: json::JsonValue) -> bool {
        self.send(json::object! { "jsonrpc": "2.0", "method": method, "params": params })
    }
    fn request(&mut self, method: &str, params: json::JsonValue) -> i64 {
        self.next_id += 1;
        let id = self.next_id;
        self.send(json::object! { "jsonrpc": "2.0", "id": id, "method": method, "params": params });
        id
    }
    fn now(&self) -> u64 { self.t0.elapsed().as_millis() as u64 }
    fn wait_for<F: Fn(&[(u64, json::JsonValue)]) -> bool>(&self, pred: F, timeout_ms: u64) -> bool {
        let t = Instant::now();
        loop {
            if pred(&self.msgs.lock().unwrap()) { return true; }
            if t.elapsed().as_millis() as u64 >= timeout_ms { return false; }
            std::thread::sleep(Duration::from_millis(8));
        }
    }
    fn has_response(&self, id: i64, timeout_ms: u64) -> bool {
        self.wait_for(|ms| ms.iter().any(|(_, m)| m["id"].as_i64() == Some(id) && m["method"].is_null()), timeout_ms)
    }
    fn initialize(&mut self) -> bool {
        let id = self.request("initialize", json::object! { "processId": json::Null, "rootUri": json::Null,
            "capabilities": { "workspace": { "configuration": true } } });
        if !self.has_response(id, T_INIT) { return false; }
        self.notify("initialized", json::object! {})
    }
    /// wait for the server's next `workspace/configuration` request after message index `from`
    /// and answer it from this thread (so that all client sends have one definite order)
    fn answer_config(&mut self, from: usize, settings: json::JsonValue) -> bool {
        let ok = self.wait_for(|ms| ms.iter().skip(from).any(|(_, m)| m["method"] == "workspace/configuration"), T_CFG);
        if !ok { return false; }
        let id = {
            let g = self.msgs.lock().unwrap();
            g.iter().skip(from).find(|(_, m)| m["method"] == "workspace/configuration").map(|(_, m)| m["id"].clone())
        };
        match id {
            Some(id) => self.send(json::object! { "jsonrpc": "2.0", "id": id, "result": json::array![settings] }),
            None => false,
        }
    }
    fn msg_count(&self) -> usize { self.msgs.lock().unwrap().len() }
    fn alive(&mut self) -> bool { matches!(self.child.try_wait(), Ok(None)) }
    fn publications(&self) -> Vec<(u64, String, Option<i64>, String)> {
        let g = self.msgs.lock().unwrap();
        g.iter().filter(|(_, m)| m["method"] == "textDocument/publishDiagnostics").map(|(t, m)| {
            (*t, m["params"]["uri"].as_str().unwrap_or("?").to_string(), m["params"]["version"].as_i64(), m["params"]["diagnostics"].dump())
        }).collect()
    }
    fn stderr_text(&self) -> String { self.stderr.lock().unwrap().clone() }
    fn shutdown(mut self) {
        let id = self.request("shutdown", json::Null);
        let _ = self.has_response(id, 200);
        self.notify("exit", json::Null);
        self.stdin = None;
        // (the servers never leave `io_threads.join()` because `connection` is still alive: kill)
        let t = Instant::now();
        while t.elapsed() < Duration::from_millis(30) {
            if let Ok(Some(_)) = self.child.try_wait() { return; }
            std::thread::sleep(Duration::from_millis(10));
        }
        // Drop kills and reaps
    }
}

impl Drop for Client {
    /// no server process may outlive its client, whatever path the harness takes
    fn drop(&mut self) {
        self.stdin = None;
        let _ = self.child.kill();
        let _ = self.child.wait();
    }
}

/// generous upper bounds (ms); every wait exits as soon as its condition holds, so these only cost
/// time when something is really wrong — a loaded machine must not turn into a verdict
const T_INIT: u64 = 40_000;
const T_CFG: u64 = 20_000;
const T_REQ: u64 = 20_000;
const T_PUBLISH: u64 = 30_000;

fn did_open(c: &mut Client, uri: &str, ver: i64, text: &str) -> bool {
    c.notify("textDocument/didOpen", json::object! { "textDocument": { "uri": uri, "languageId": "x", "version": ver, "text": text } })
}
fn did_change(c: &mut Client, uri: &str, ver: i64, text: &str) -> bool {
    c.notify("textDocument/didChange", json::object! { "textDocument": { "uri": uri, "version": ver }, "contentChanges": [ { "text": text } ] })
}
fn did_close(c: &mut Client, uri: &str) -> bool {
    c.notify("textDocument/didClose", json::object! { "textDocument": { "uri": uri } })
}
fn send_request(c: &mut Client, kind: usize, uri: &str, line: usize, ch: usize) -> i64 {
    let pos = json::object! { "line": line, "character": ch };
    match kind % 5 {
        0 => c.request("textDocument/hover", json::object! { "textDocument": { "uri": uri }, "position": pos }),
        1 => c.request("textDocument/completion", json::object! { "textDocument": { "uri": uri }, "position": pos, "context": { "triggerKind": 1 } }),
        2 => c.request("textDocument/documentSymbol", json::object! { "textDocument": { "uri": uri } }),
        3 => c.request("textDocument/semanticTokens/full", json::object! { "textDocument": { "uri": uri } }),
        _ => c.request("textDocument/definition", json::object! { "textDocument": { "uri": uri }, "position": pos }),
    }
}

fn panic_sig(stderr: &str) -> Option<String> {
    // "thread '<unnamed>' panicked at src/lang/x.rs:12:5:"
    let i = stderr.find("panicked at ")?;
    let rest = &stderr[i + 12..];
    let site: String = rest.chars().take_while(|c| !c.is_whitespace() && *c != ',').collect();
    let mut parts = site.trim_end_matches(':').split(':');
    let file = parts.next().unwrap_or("?");
    let file = match file.find("src/") { Some(k) => &file[k..], None => file };
    Some(format!("panic:{}", file))
}

// ------------------------------------------------------------------------------------------------
// building the servers
// ------------------------------------------------------------------------------------------------

fn build_servers() -> Result<String, String> {
    let repo = std::env::var("A2KIT_REPO").unwrap_or_else(|_| "/repo".to_string());
    let cwd = std::env::current_dir().map_err(|e| e.to_string())?;
    let target = cwd.join("c18-target");
    let lock = std::path::Path::new(&repo).join("Cargo.lock");
    if !lock.exists() {
        let _ = std::fs::copy("/repo/Cargo.lock", &lock);
    }
    let mut cargo = Command::new("cargo");
    cargo.args(["build", "--offline", "--bins"]).current_dir(&repo)
        .env("RUSTFLAGS", "--cfg a2kit_verif").env("CARGO_TARGET_DIR", &target).env("CARGO_NET_OFFLINE", "true")
        .env_remove("LD_PRELOAD").env_remove("CARGO_ENCODED_RUSTFLAGS");
    crate::util::die_with_parent(&mut cargo);
    let out = cargo.output().map_err(|e| format!("cargo: {}", e))?;
    if !out.status.success() {
        let e = String::from_utf8_lossy(&out.stderr);
        let tail: Vec<&str> = e.lines().filter(|l| l.contains("error")).take(6).collect();
        return Err(tail.join(" | "));
    }
    Ok(target.join("debug").to_string_lossy().to_string())
}

// ------------------------------------------------------------------------------------------------
// document texts
// ------------------------------------------------------------------------------------------------

const AS_STMTS: [&str; 27] = ["LONGV = 1", "PRINT LONGV + 1", "Z = FN F(LONGV)", "PRINT \"HELLO\"", "GOTO 100", "GOSUB 1000", "FOR I = 1 TO 10", "NEXT I", "A = A + 1", "IF A > 3 THEN 50",
    "DIM A(10)", "INPUT \"NAME? \";N$", "HOME", "REM A COMMENT", "POKE 768,0", "CALL 768", "RETURN", "END", "X = PEEK(49152)",
    "DEF FN F(X) = X*2", "Y = FN F(3)", "ON A GOTO 10,20,30", "HTAB 5: VTAB 6", "PRINT CHR$(4);\"RUN X\"", "POKE 103,1: POKE 104,8",
    "A$ = \"AB\" + B$", "DATA 1,2,\"X\""];
const IB_STMTS: [&str; 18] = ["LONGV = 1", "PRINT LONGV + 1", "PRINT \"HELLO\"", "GOTO 100", "GOSUB 1000", "FOR I = 1 TO 10", "NEXT I", "A = A + 1", "IF A > 3 THEN 50",
    "DIM A(10)", "INPUT \"NAME\",N$", "REM A COMMENT", "POKE 768,0", "CALL 768", "RETURN", "END", "X = PEEK(2000)", "TAB 5: VTAB 6"];
const ME_LINES: [&str; 26] = ["START    LDA   #$00", "         STA   $C000", "LOOP     INX", "         BNE   LOOP", "         JMP   NOWHERE", "* comment line",
    "VAL      EQU   $300", "         ORG   $8000", "         JSR   SUB", "SUB      RTS", "MAC1     MAC", "         LDA   ]1", "         <<<", "         MAC1  #$01",
    "         DO    0", "         FIN", "]VAR     =     5", "         LDA   #]VAR", ":LOCAL   DEX", "         BPL   :LOCAL", "MSG      ASC   \"HELLO\"", "         HEX   00A1FF",
    "         DS    16", "         LUP   3", "         --^", "         PUT   OTHER"];

/// user-function and long variable names whose first two characters coincide: Applesoft keeps only
/// two significant characters, and the analyzer warns about collisions *within one program*.  Every
/// text uses ONE name of each family, so a fresh analysis never warns; a warning can only come
/// from names that an earlier analysis (older version, other document) left in the shared analyzer.
const FN_NAMES: [&str; 4] = ["CUBE", "CUTE", "CUP", "CUB2"];
const VAR_NAMES: [&str; 4] = ["BLUE", "BLIP", "BLUB", "BL2"];

fn valid_text(lang: Lang, rng: &mut Rng) -> String {
    let n = rng.range(1, 14);
    let mut s = String::new();
    match lang {
        Lang::Applesoft | Lang::Integer => {
            let mut ln = 10 * rng.range(1, 5);
            let f = *rng.pick(&FN_NAMES);
            let v = *rng.pick(&VAR_NAMES);
            for _ in 0..n {
                let stmt = if lang == Lang::Applesoft { *rng.pick(&AS_STMTS) } else { *rng.pick(&IB_STMTS) };
                let stmt = stmt.replace("FN F(", &format!("FN {}(", f)).replace("LONGV", v);
                s.push_str(&format!("{} {}\n", ln, stmt));
                ln += 10 * rng.range(1, 3);
            }
        }
        Lang::Merlin => {
            for _ in 0..n { s.push_str(*rng.pick(&ME_LINES)); s.push('\n'); }
        }
    }
    s
}

fn rand_unicode(rng: &mut Rng) -> char {
    let pools: [(u32, u32); 7] = [(0x20, 0x7e), (0xa0, 0x24f), (0x370, 0x3ff), (0x5d0, 0x5ea), (0x300, 0x36f), (0x1f300, 0x1f64f), (0x4e00, 0x4fff)];
    let (lo, hi) = *rng.pick(&pools);
    char::from_u32(lo + rng.below((hi - lo + 1) as usize) as u32).unwrap_or('?')
}

/// broken / odd documents; `k` selects the kind
fn odd_text(lang: Lang, k: usize, rng: &mut Rng) -> (String, &'static str) {
    let base = valid_text(lang, rng);
    match k % 14 {
        0 => { // random bytes as text (lossy utf-8)
            let n = rng.range(1, 400);
            (String::from_utf8_lossy(&rng.bytes(n)).to_string(), "random-bytes")
        }
        1 => { // random printable ascii with newlines
            let n = rng.range(1, 600);
            ((0..n).map(|_| if rng.chance(6) { '\n' } else { (32 + rng.below(95) as u8) as char }).collect(), "random-ascii")
        }
        2 => { // huge line
            let n = rng.range(1000, 6000);
            let unit = *rng.pick(&["A", "1", "\"", "(", ":", " ", "PRINT", "LDA ", ","]);
            let mut s = match lang { Lang::Merlin => String::from("LBL LDA "), _ => String::from("10 ") };
            while s.len() < n { s.push_str(unit); }
            (s + "\n", "huge-line")
        }
        3 => (base.replace('"', "") + "20 PRINT \"UNTERMINATED\n30 A$ = \"X\n", "unbalanced-quotes"),
        4 => (base.replace('\n', "\r\n"), "crlf"),
        5 => (base.replace('\n', "\r"), "lone-cr"),
        6 => { // unicode sprinkled
            let mut s = String::new();
            for ch in base.chars() { s.push(ch); if rng.chance(8) { s.push(rand_unicode(rng)); } }
            (s, "unicode")
        }
        7 => { // control characters and NUL
            let mut s = String::new();
            for ch in base.chars() { s.push(ch); if rng.chance(6) { s.push(char::from_u32(rng.below(32) as u32).unwrap()); } }
            (s, "control-chars")
        }
        8 => { // truncated in the middle
            let cut = rng.below(base.len().max(1));
            let mut c = cut; while !base.is_char_boundary(c) { c -= 1; }
            (base[..c].to_string(), "truncated")
        }
        9 => { // many lines
            let n = rng.range(300, 1500);
            let mut s = String::new();
            for i in 0..n { match lang { Lang::Merlin => s.push_str(&format!("L{} NOP\n", i % 50)), _ => s.push_str(&format!("{} GOTO {}\n", i, (i * 7) % n)) } }
            (s, "many-lines")
        }
        10 => { // extreme numbers
            let s = match lang {
                Lang::Merlin => "X EQU $FFFFFFFFFFFFFFFFFFFF\n LDA #99999999999999999999\n ORG $-1\n DS 99999999999\n LUP 4294967296\n --^\n".to_string(),
                _ => "99999999999999999999 GOTO 99999999999999999999\n65536 PRINT 1E999\n-1 POKE 99999999999,-99999999999\n0 ON 99999999999999999999999 GOTO 1\n10 DIM A(99999999999999999999)\n".to_string(),
            };
            (s, "extreme-numbers")
        }
        11 => { // words shuffled: syntactically broken
            let words: Vec<&str> = base.split_whitespace().collect();
            let mut s = String::new();
            for _ in 0..words.len().max(3) { if !words.is_empty() { s.push_str(*rng.pick(&words[..])); } s.push(if rng.chance(15) { '\n' } else { ' ' }); }
            (s, "shuffled")
        }
        12 => { // empty-ish
            ((*rng.pick(&["", "\n", " ", "\n\n\n", "\t", "\u{feff}", " \n \n"])).to_string(), "blank")
        }
        _ => { // deep nesting / repeated structure
            let n = rng.range(50, 3000);
            let s = match lang {
                Lang::Merlin => { let mut s = String::new(); for _ in 0..n.min(400) { s.push_str(" DO 1\n"); } s.push_str(" LDA #"); for _ in 0..n { s.push('('); } s.push('\n'); s }
                _ => { let mut s = String::from("10 A = "); for _ in 0..n { s.push('('); } s.push('1'); for _ in 0..n / 2 { s.push(')'); } s.push('\n'); s }
            };
            (s, "deep-nesting")
        }
    }
}

// ------------------------------------------------------------------------------------------------
// histories
// ------------------------------------------------------------------------------------------------

#[derive(Clone, Debug)]
enum Act {
    Open { d: usize, ver: i64, t: usize },
    Change { d: usize, ver: i64, t: usize },
    Close { d: usize },
    Req { kind: usize, d: usize, line: usize, ch: usize },
    /// `workspace/didChangeConfiguration` → server pulls → we answer
    Config { live: bool },
}

#[derive(Clone, Debug)]
struct Case {
    lang: Lang,
    idx: usize,
    steps: Vec<(u64, Act)>,
    texts: Vec<String>,
    sched: Vec<(String, i64, u64)>,
    answer_initial_cfg: bool,
    poison: bool,
    burst: bool,
    /// requests must be answered within this many ms although an analysis holds the mutex much longer
    max_latency: Option<u64>,
}

impl Case {
    fn sched_string(&self) -> String {
        self.sched.iter().map(|(t, v, ms)| format!("{}:{}={}", t, v, ms)).collect::<Vec<_>>().join(",")
    }
    fn describe(&self) -> String {
        let mut s = format!("idx={} srv={} sched={} cfg0={} steps=", self.idx, self.lang.name(), self.sched_string(), self.answer_initial_cfg as u8);
        for (gap, a) in &self.steps {
            s.push_str(&match a {
                Act::Open { d, ver, t } => format!("+{}ms O{}v{}t{} ", gap, d, ver, t),
                Act::Change { d, ver, t } => format!("+{}ms C{}v{}t{} ", gap, d, ver, t),
                Act::Close { d } => format!("+{}ms X{} ", gap, d),
                Act::Req { kind, d, .. } => format!("+{}ms R{}d{} ", gap, kind, d),
                Act::Config { live } => format!("+{}ms G{} ", gap, *live as u8),
            });
        }
        s
    }
    fn launches(&self) -> usize { self.steps.iter().filter(|(_, a)| matches!(a, Act::Open { .. } | Act::Change { .. })).count() }
}

fn gen_case(lang: Lang, idx: usize, rng: &mut Rng) -> Case {
    let ndocs = *rng.pick(&[1usize, 1, 2, 2, 3]);
    let nedits = rng.range(2, 9);
    let burst = rng.chance(35);
    let poison = rng.chance(8);
    let mut texts: Vec<String> = Vec::new();
    let mut steps: Vec<(u64, Act)> = Vec::new();
    let mut open = vec![false; ndocs];
    let mut next_ver = vec![0i64; ndocs];
    let mut all_vers: Vec<i64> = Vec::new();
    let mut live = true;
    let gaps: [u64; 8] = [0, 0, 5, 20, 60, 120, 200, 300];
    for e in 0..nedits + ndocs {
        let d = if e < ndocs { e } else { rng.below(ndocs) };
        let gap = if burst { *rng.pick(&[0u64, 0, 0, 3]) } else { *rng.pick(&gaps) };
        let t = texts.len();
        let txt = if rng.chance(30) { odd_text(lang, 3 + rng.below(9), rng).0 } else { valid_text(lang, rng) };
        // keep texts of one case pairwise distinct so that a text id identifies a text
        texts.push(format!("{}{}", txt, match lang { Lang::Merlin => format!("* t{}\n", t), _ => format!("{} REM T{}\n", 60000 + t, t) }));
        next_ver[d] += 1;
        let ver = (d as i64 + 1) * 1000 + next_ver[d];
        all_vers.push(ver);
        if !open[d] {
            steps.push((gap, Act::Open { d, ver, t }));
            open[d] = true;
        } else {
            steps.push((gap, Act::Change { d, ver, t }));
        }
        if rng.chance(25) { steps.push((*rng.pick(&gaps), Act::Req { kind: rng.below(5), d, line: rng.below(4), ch: rng.below(12) })); }
        if rng.chance(7) && e + 1 < nedits + ndocs { steps.push((*rng.pick(&gaps), Act::Close { d })); open[d] = false; }
        if rng.chance(10) {
            let l = if lang == Lang::Merlin && rng.chance(30) { !live } else { live };
            live = l;
            steps.push((*rng.pick(&gaps), Act::Config { live: l }));
        }
    }
    // delay table: force out-of-order acquisition/completion
    let mut sched = Vec::new();
    for v in &all_vers {
        if rng.chance(35) { sched.push(("lock".to_string(), *v, *rng.pick(&[30u64, 80, 150, 250]))); }
        if rng.chance(20) { sched.push(("hold".to_string(), *v, *rng.pick(&[50u64, 120, 250]))); }
        if rng.chance(10) { sched.push(("finish".to_string(), *v, *rng.pick(&[40u64, 100]))); }
    }
    if poison && all_vers.len() >= 2 {
        let v = all_vers[rng.below(all_vers.len() - 1)];
        sched.push(("panic".to_string(), v, 1));
    }
    Case { lang, idx, steps, texts, sched, answer_initial_cfg: rng.chance(50), poison, burst, max_latency: None }
}

/// how long the first analysis of fixed schedule (b) keeps the mutex
const HOLD_MS: u64 = 4000;

/// two texts per language such that analysing B after A with a leaking analyzer differs from
/// analysing B alone (and vice versa)
fn leak_texts(lang: Lang) -> (String, String) {
    match lang {
        Lang::Applesoft => ("10 DEF FN CUBE(X) = X*X*X\n20 BLUE = 2\n30 PRINT FN CUBE(BLUE)\n40 GOTO 100\n100 END\n".to_string(),
                            "10 DEF FN CUTE(X) = X+1\n20 BLIP = 3\n30 PRINT FN CUTE(BLIP)\n40 GOTO 100\n".to_string()),
        Lang::Integer => ("10 DIM NAME$(10),A(5)\n20 NAME$ = \"X\"\n30 A(1) = 1\n40 GOTO 100\n100 END\n".to_string(),
                          "10 PRINT NAME$\n20 PRINT A(1)\n30 GOTO 100\n".to_string()),
        Lang::Merlin => ("SUB      RTS\nVAL      EQU   $300\nM1       MAC\n         LDA   ]1\n         <<<\n]V       =     5\n".to_string(),
                         "         JSR   SUB\n         LDA   VAL\n         M1    #1\n         LDA   #]V\n".to_string()),
    }
}

/// hand-made schedules that every run must contain
fn fixed_cases(lang: Lang, base: usize, rng: &mut Rng) -> Vec<Case> {
    let mk = |t: usize, rng: &mut Rng| format!("{}{}", valid_text(lang, rng), match lang { Lang::Merlin => format!("* t{}\n", t), _ => format!("{} REM T{}\n", 60000 + t, t) });
    let mut out = Vec::new();
    // (a) burst of 6 edits, completion order reversed by the delay table
    let texts: Vec<String> = (0..6).map(|t| mk(t, rng)).collect();
    let mut steps = vec![(0, Act::Open { d: 0, ver: 1001, t: 0 })];
    for i in 1..6 { steps.push((0, Act::Change { d: 0, ver: 1001 + i as i64, t: i })); }
    steps.push((10, Act::Req { kind: 0, d: 0, line: 0, ch: 4 }));
    let sched = (0..6).map(|i| ("lock".to_string(), 1001 + i as i64, 60 * (5 - i as u64))).collect();
    out.push(Case { lang, idx: base, steps, texts, sched, answer_initial_cfg: false, poison: false, burst: true, max_latency: None });
    // (b) first analysis holds the mutex for several seconds while two documents are edited and requests arrive
    let texts: Vec<String> = (0..4).map(|t| mk(t, rng)).collect();
    let steps = vec![(0, Act::Open { d: 0, ver: 1001, t: 0 }), (30, Act::Open { d: 1, ver: 2001, t: 1 }), (10, Act::Req { kind: 0, d: 0, line: 0, ch: 4 }),
        (0, Act::Change { d: 0, ver: 1002, t: 2 }), (20, Act::Req { kind: 1, d: 1, line: 0, ch: 2 }), (0, Act::Change { d: 1, ver: 2002, t: 3 }), (50, Act::Req { kind: 2, d: 0, line: 0, ch: 0 })];
    out.push(Case { lang, idx: base + 1, steps, texts, sched: vec![("hold".to_string(), 1001, HOLD_MS)], answer_initial_cfg: true, poison: false, burst: false, max_latency: Some(HOLD_MS) });
    // (c) configuration answered while an analysis holds the mutex; private-analyzer relaunch
    let texts: Vec<String> = (0..3).map(|t| mk(t, rng)).collect();
    let steps = vec![(0, Act::Open { d: 0, ver: 1001, t: 0 }), (0, Act::Open { d: 1, ver: 2001, t: 1 }), (20, Act::Config { live: true }), (0, Act::Change { d: 0, ver: 1002, t: 2 }),
        (0, Act::Req { kind: 0, d: 0, line: 0, ch: 3 })];
    out.push(Case { lang, idx: base + 2, steps, texts, sched: vec![("hold".to_string(), 1001, 200), ("lock".to_string(), 2001, 100)], answer_initial_cfg: true, poison: false, burst: false, max_latency: None });
    // (d) injected thread death: poisoning must silence the shared analyzer exactly as the model says
    let texts: Vec<String> = (0..4).map(|t| mk(t, rng)).collect();
    let steps = vec![(0, Act::Open { d: 0, ver: 1001, t: 0 }), (150, Act::Change { d: 0, ver: 1002, t: 1 }), (0, Act::Change { d: 0, ver: 1003, t: 2 }),
        (100, Act::Req { kind: 0, d: 0, line: 0, ch: 3 }), (50, Act::Change { d: 0, ver: 1004, t: 3 })];
    out.push(Case { lang, idx: base + 3, steps, texts, sched: vec![("panic".to_string(), 1002, 1)], answer_initial_cfg: false, poison: true, burst: false, max_latency: None });
    // (e) burst of changes on a LARGE document, no delay table: the analysis takes longer than the gaps,
    //     so jobs pile up behind the mutex by themselves (works without hooks too)
    let big = |t: usize, rng: &mut Rng| {
        let mut s = String::new();
        for i in 0..700 { match lang {
            Lang::Merlin => s.push_str(&format!("L{}T{}   LDA   #${:02X}\n         JSR   L{}T{}\n", i, t, i % 256, (i * 7) % 700, t)),
            _ => s.push_str(&format!("{} A{} = A{} + {}: GOTO {}\n", 10 + i, i % 9, (i + t) % 9, i, 10 + (i * 7 + t) % 700)),
        } }
        let _ = rng;
        s + &match lang { Lang::Merlin => format!("* t{}\n", t), _ => format!("{} REM T{}\n", 60000 + t, t) }
    };
    let texts: Vec<String> = (0..5).map(|t| big(t, rng)).collect();
    let mut steps = vec![(0, Act::Open { d: 0, ver: 1001, t: 0 })];
    for i in 1..5 { steps.push((0, Act::Change { d: 0, ver: 1001 + i as i64, t: i })); }
    out.push(Case { lang, idx: base + 4, steps, texts, sched: vec![], answer_initial_cfg: false, poison: false, burst: true, max_latency: None });
    // (f) what one analysis leaves in the shared analyzer must not reach the next: B after A on the same
    //     document and on another one, in launch order ...
    let (a, b) = leak_texts(lang);
    let texts = vec![a.clone(), a.clone() + &match lang { Lang::Merlin => "* other\n".to_string(), _ => "60001 REM OTHER\n".to_string() }, b.clone()];
    let steps = vec![(0, Act::Open { d: 0, ver: 1001, t: 0 }), (0, Act::Open { d: 1, ver: 2001, t: 1 }), (40, Act::Open { d: 2, ver: 3001, t: 2 }), (40, Act::Change { d: 0, ver: 1002, t: 2 })];
    out.push(Case { lang, idx: base + 5, steps: steps.clone(), texts: texts.clone(), sched: vec![], answer_initial_cfg: false, poison: false, burst: false, max_latency: None });
    // (g) ... and with the analyses forced out of launch order (B is analysed first, then A)
    out.push(Case { lang, idx: base + 6, steps: vec![(0, Act::Open { d: 0, ver: 1001, t: 0 }), (0, Act::Open { d: 1, ver: 2001, t: 2 })], texts,
        sched: vec![("lock".to_string(), 1001, 300)], answer_initial_cfg: false, poison: false, burst: false, max_latency: None });
    out
}

// ------------------------------------------------------------------------------------------------
// running one case
// ------------------------------------------------------------------------------------------------

#[derive(Clone, Debug)]
struct LogLine { tag: String, id: usize, uri: String, ver: i64 }

struct Obs {
    started: bool,
    hooks: bool,
    alive_end: bool,
    log: Vec<LogLine>,
    pubs: Vec<(u64, String, Option<i64>, String)>,
    req_sent: Vec<(i64, u64, usize)>,
    req_answered: Vec<(i64, u64)>,
    probe_published: bool,
    probe_request_answered: bool,
    stderr: String,
    live_at_end: bool,
    /// per document: (last version sent, text id, diagnostics of a fresh single-document server)
    fresh: BTreeMap<usize, (i64, usize, Option<String>)>,
    /// fixed schedule (b): per request sent while the first analysis held the mutex,
    /// (latency ms, answer came only after that analysis' own publication on the wire)
    blocked: Vec<(u64, bool)>,
}

/// the hook event lines on the server's standard error
fn read_log(stderr: &str) -> Vec<LogLine> {
    let mut out = Vec::new();
    for l in stderr.lines() {
        let p: Vec<&str> = l.split('\t').collect();
        if p.len() == 5 && p[0] == "a2kit-verif" {
            out.push(LogLine { tag: p[1].to_string(), id: p[2].parse().unwrap_or(usize::MAX), uri: p[3].to_string(), ver: p[4].parse().unwrap_or(-1) });
        }
    }
    out
}

fn without_log(stderr: &str) -> String {
    stderr.lines().filter(|l| !l.starts_with("a2kit-verif\t")).collect::<Vec<_>>().join("\n")
}

fn cfg_value(live: bool) -> json::JsonValue {
    if live { json::object! {} } else { json::object! { "diagnostics": { "live": false } } }
}

fn run_case(bin_dir: &str, case: &Case, tag: &str) -> Obs {
    let _ = tag;
    let mut obs = Obs { started: false, hooks: false, alive_end: false, log: vec![], pubs: vec![], req_sent: vec![], req_answered: vec![],
        probe_published: false, probe_request_answered: false, stderr: String::new(), live_at_end: true, fresh: BTreeMap::new(), blocked: vec![] };
    let envs = vec![("A2KIT_VERIF_LOG".to_string(), "stderr".to_string()), ("A2KIT_VERIF_SCHED".to_string(), case.sched_string())];
    let mut c = match Client::spawn(&format!("{}/{}", bin_dir, case.lang.exe()), &envs) { Some(c) => c, None => return obs };
    if !c.initialize() { obs.stderr = without_log(&c.stderr_text()); c.shutdown(); return obs; }
    obs.started = true;
    if case.answer_initial_cfg { c.answer_config(0, cfg_value(true)); }
    let mut total_delay: u64 = case.sched.iter().filter(|(t, _, _)| t != "panic").map(|(_, _, ms)| *ms).sum();
    let mut live = true;
    let mut last_sent: BTreeMap<usize, i64> = BTreeMap::new();
    let mut last_text: BTreeMap<usize, usize> = BTreeMap::new();
    let mut expect_launch = 0usize;
    let mut open_docs: HashSet<usize> = HashSet::new();
    for (gap, act) in &case.steps {
        if *gap > 0 { std::thread::sleep(Duration::from_millis(*gap)); }
        match act {
            Act::Open { d, ver, t } => { did_open(&mut c, &uri_of(case.lang, case.idx, *d), *ver, &case.texts[*t]); last_sent.insert(*d, *ver); last_text.insert(*d, *t); expect_launch += 1; open_docs.insert(*d); }
            Act::Change { d, ver, t } => { did_change(&mut c, &uri_of(case.lang, case.idx, *d), *ver, &case.texts[*t]); if live { last_sent.insert(*d, *ver); last_text.insert(*d, *t); expect_launch += 1; } }
            Act::Close { d } => { did_close(&mut c, &uri_of(case.lang, case.idx, *d)); open_docs.remove(d); }
            Act::Req { kind, d, line, ch } => {
                let now = c.now();
                let id = send_request(&mut c, *kind, &uri_of(case.lang, case.idx, *d), *line, *ch);
                obs.req_sent.push((id, now, *kind));
            }
            Act::Config { live: l } => {
                let from = c.msg_count();
                c.notify("workspace/didChangeConfiguration", json::object! { "settings": json::Null });
                if c.answer_config(from, cfg_value(*l)) { live = *l; expect_launch += open_docs.len(); }
                total_delay += 400; // the handler may wait for the mutex
            }
        }
    }
    obs.live_at_end = live;
    // quiescence: all launched jobs harvested (hooks) / last versions published (black box)
    // generous: the loop leaves as soon as the server is quiescent
    let budget = 20_000 + 600 * (expect_launch as u64 + 4) + 3 * total_delay;
    let t = Instant::now();
    loop {
        std::thread::sleep(Duration::from_millis(40));
        let log = read_log(&c.stderr_text());
        if !log.is_empty() {
            let launched = log.iter().filter(|l| l.tag.starts_with("launch")).count();
            let harvested = log.iter().filter(|l| l.tag == "harvest").count();
            if launched == harvested && launched >= expect_launch && t.elapsed().as_millis() > 150 { break; }
        } else if case.poison {
            if t.elapsed().as_millis() as u64 > 3000 + total_delay { break; }   // black box: nothing to wait for
        } else {
            let pubs = c.publications();
            let done = last_sent.iter().all(|(d, v)| pubs.iter().any(|p| p.1 == uri_of(case.lang, case.idx, *d) && p.2 == Some(*v)));
            if done && t.elapsed().as_millis() > 250 { break; }
        }
        if t.elapsed().as_millis() as u64 > budget { break; }
    }
    // outstanding requests
    for (id, _, _) in obs.req_sent.clone() { let _ = c.has_response(id, T_REQ); }
    {
        let g = c.msgs.lock().unwrap();
        for (id, _, _) in &obs.req_sent {
            if let Some((t, _)) = g.iter().find(|(_, m)| m["id"].as_i64() == Some(*id) && m["method"].is_null()) { obs.req_answered.push((*id, *t)); }
        }
    }
    if case.max_latency.is_some() {
        // position on the wire of the publication of the job that held the mutex (first launch)
        let g = c.msgs.lock().unwrap();
        let held_uri = uri_of(case.lang, case.idx, 0);
        let pub_pos = g.iter().position(|(_, m)| m["method"] == "textDocument/publishDiagnostics" && m["params"]["uri"] == held_uri.as_str());
        for (id, ts, _) in &obs.req_sent {
            if let Some(pos) = g.iter().position(|(_, m)| m["id"].as_i64() == Some(*id) && m["method"].is_null()) {
                let lat = g[pos].0.saturating_sub(*ts);
                obs.blocked.push((lat, matches!(pub_pos, Some(pp) if pp < pos)));
            }
        }
    }
    // the `harvest` line precedes the `publish` line, which precedes the bytes on the wire
    std::thread::sleep(Duration::from_millis(60));
    obs.log = read_log(&c.stderr_text());
    obs.hooks = !obs.log.is_empty();
    let want = obs.log.iter().filter(|l| l.tag == "publish").count();
    let t1 = Instant::now();
    while c.publications().len() < want && t1.elapsed() < Duration::from_millis(10_000) { std::thread::sleep(Duration::from_millis(10)); }
    obs.pubs = c.publications();
    // liveness probe: a request and a fresh edit on a new document (not part of the trace)
    let probe_uri = format!("file:///c18/k{}/probe.{}", case.idx, case.lang.ext());
    let probe_text = match case.lang { Lang::Merlin => " LDA #$01\n JMP NOWHERE\n", _ => "10 GOTO 20\n" };
    let rid = send_request(&mut c, 0, &uri_of(case.lang, case.idx, 0), 0, 3);
    obs.probe_request_answered = c.has_response(rid, T_REQ);
    did_open(&mut c, &probe_uri, 77, probe_text);
    obs.probe_published = c.wait_for(|ms| ms.iter().any(|(_, m)| m["method"] == "textDocument/publishDiagnostics" && m["params"]["uri"] == probe_uri.as_str()),
        if case.poison { 1200 } else { T_PUBLISH });
    obs.alive_end = c.alive();
    obs.stderr = without_log(&c.stderr_text());
    if std::env::var("C18_KEEP_LOGS").is_ok() { let _ = std::fs::write(format!("c18-log-{}-{}.txt", case.lang.name(), case.idx), c.stderr_text()); }
    c.shutdown();
    if !case.poison {
        for (d, ver) in &last_sent {
            let t = last_text[d];
            let u = uri_of(case.lang, case.idx, *d);
            obs.fresh.insert(*d, (*ver, t, fresh_diags(bin_dir, case.lang, &u, &case.texts[t])));
        }
    }
    obs
}

/// diagnostics a fresh server instance publishes for this text alone (same uri)
fn fresh_diags(bin_dir: &str, lang: Lang, uri: &str, text: &str) -> Option<String> {
    let mut c = Client::spawn(&format!("{}/{}", bin_dir, lang.exe()), &[])?;
    if !c.initialize() { c.shutdown(); return None; }
    did_open(&mut c, uri, 1, text);
    let u = uri.to_string();
    let ok = c.wait_for(|ms| ms.iter().any(|(_, m)| m["method"] == "textDocument/publishDiagnostics" && m["params"]["uri"] == u.as_str()), T_PUBLISH);
    let ans = if ok { c.publications().into_iter().filter(|p| p.1 == uri).last().map(|p| p.3) } else { None };
    c.shutdown();
    ans
}

// ------------------------------------------------------------------------------------------------
// trace for the Lean model
// ------------------------------------------------------------------------------------------------

fn is_main(tag: &str) -> bool { tag.starts_with("launch") || tag == "harvest" || tag == "publish" }

/// returns (request line, implementation answer)
fn build_trace(case: &Case, obs: &Obs) -> (String, String) {
    let log = &obs.log;
    let uri_idx = |u: &str| -> Option<usize> { (0..4).find(|d| uri_of(case.lang, case.idx, *d) == u) };
    // what the client sent, in order (the initial configuration answer comes first)
    let mut sent: Vec<Act> = Vec::new();
    if case.answer_initial_cfg { sent.push(Act::Config { live: true }); }
    for (_, a) in &case.steps { sent.push(a.clone()); }
    let mut toks: Vec<String> = Vec::new();
    let mut si = 0usize;
    let mut live = true;
    let mut open: Vec<usize> = Vec::new();
    let mut consumed: HashSet<usize> = HashSet::new();
    let mut acquired: HashSet<usize> = HashSet::new();
    let mut died: HashSet<usize> = HashSet::new();
    let mut job_doc: HashMap<usize, (String, i64)> = HashMap::new();
    let mut job_text: HashMap<usize, usize> = HashMap::new();
    let mut err_texts: Vec<usize> = Vec::new();
    // harvest outcome per job: Some(true) published, Some(false) not
    let mut outcome: HashMap<usize, bool> = HashMap::new();
    for (i, l) in log.iter().enumerate() {
        if l.tag == "harvest" {
            let nxt = log.iter().skip(i + 1).find(|x| is_main(&x.tag));
            outcome.insert(l.id, matches!(nxt, Some(x) if x.tag == "publish"));
        }
    }
    // emit the client messages that launch nothing, up to the next launching one
    fn flush_silent(sent: &[Act], si: &mut usize, live: &mut bool, open: &mut Vec<usize>, toks: &mut Vec<String>, stop_at_launcher: bool) {
        while *si < sent.len() {
            match &sent[*si] {
                Act::Close { d } => { toks.push(format!("X:{}", d)); open.retain(|x| x != d); }
                Act::Req { .. } => toks.push("R".to_string()),
                Act::Config { live: l } if open.is_empty() => { toks.push(format!("G:{}:-", *l as u8)); *live = *l; }
                Act::Change { d, ver, t } if !*live => toks.push(format!("C:{}:{}:{}", d, ver, t)),
                _ => { if stop_at_launcher { return; } else { return; } }
            }
            *si += 1;
        }
    }
    for (i, l) in log.iter().enumerate() {
        if consumed.contains(&i) { continue; }
        match l.tag.as_str() {
            "launch" | "launch-private" => {
                flush_silent(&sent, &mut si, &mut live, &mut open, &mut toks, true);
                job_doc.insert(l.id, (l.uri.clone(), l.ver));
                if si >= sent.len() { toks.push(format!("?unexpected-launch:{}", l.id)); continue; }
                match sent[si].clone() {
                    Act::Open { d, ver, t } | Act::Change { d, ver, t } => {
                        let is_open = matches!(sent[si], Act::Open { .. });
                        if l.tag != "launch" || uri_idx(&l.uri) != Some(d) || l.ver != ver { toks.push(format!("?launch-mismatch:{}", l.id)); }
                        else { toks.push(format!("{}:{}:{}:{}", if is_open { "O" } else { "C" }, d, ver, t)); }
                        if is_open && !open.contains(&d) { open.push(d); }
                        job_text.insert(l.id, t);
                        si += 1;
                    }
                    Act::Config { live: lv } => {
                        // one private job per open document; their order is the hash-map order
                        let n = open.len();
                        let mut order: Vec<usize> = Vec::new();
                        let mut j = i;
                        let mut bad = l.tag != "launch-private";
                        while order.len() < n && j < log.len() {
                            if log[j].tag == "launch-private" && !consumed.contains(&j) {
                                match uri_idx(&log[j].uri) { Some(d) => order.push(d), None => bad = true }
                                job_doc.insert(log[j].id, (log[j].uri.clone(), log[j].ver));
                                // text of the relaunched checkpoint: last text sent for that document
                                let d = uri_idx(&log[j].uri).unwrap_or(99);
                                let mut tt = 99999;
                                for a in sent.iter().take(si) { match a { Act::Open { d: dd, t, .. } | Act::Change { d: dd, t, .. } if *dd == d => tt = *t, _ => {} } }
                                job_text.insert(log[j].id, tt);
                                consumed.insert(j);
                            } else if log[j].tag == "launch" { bad = true; break; }
                            j += 1;
                        }
                        if bad || order.len() != n { toks.push(format!("?config-mismatch:{}", l.id)); }
                        else { toks.push(format!("G:{}:{}", lv as u8, order.iter().map(|d| d.to_string()).collect::<Vec<_>>().join(","))); }
                        live = lv;
                        si += 1;
                    }
                    _ => toks.push(format!("?unexpected-launch:{}", l.id)),
                }
            }
            "acquire" => { acquired.insert(l.id); toks.push(format!("A:{}", l.id)); }
            "finish" => {
                let r = match outcome.get(&l.id) { Some(true) => "1", Some(false) => "0", None => "?" };
                if r == "0" { if let Some(t) = job_text.get(&l.id) { if !err_texts.contains(t) { err_texts.push(*t); } } }
                toks.push(format!("F:{}:{}", l.id, r));
            }
            "die" => { died.insert(l.id); toks.push(format!("D:{}", l.id)); }
            "exit" => { if !acquired.contains(&l.id) { toks.push(format!("E:{}", l.id)); } }
            "harvest" => {
                let k = if outcome.get(&l.id) == Some(&true) { "p" } else if died.contains(&l.id) { "e" } else { "n" };
                toks.push(format!("H:{}:{}", l.id, k));
            }
            "publish" => {
                // must be the publication of the job harvested just before, with that job's uri/version
                let prev = log.iter().take(i).rev().find(|x| is_main(&x.tag));
                let ok = match prev { Some(p) if p.tag == "harvest" => job_doc.get(&p.id) == Some(&(l.uri.clone(), l.ver)), _ => false };
                if !ok { toks.push("?publish-mismatch".to_string()); }
            }
            _ => toks.push(format!("?unknown-tag:{}", l.tag)),
        }
    }
    flush_silent(&sent, &mut si, &mut live, &mut open, &mut toks, true);
    if si < sent.len() { toks.push("?launch-missing".to_string()); }
    // `F:id:?` (job never harvested) is accepted by nobody: keep the run honest
    let errs = if err_texts.is_empty() { "-".to_string() } else { err_texts.iter().map(|t| t.to_string()).collect::<Vec<_>>().join(",") };
    let req = format!("c18 trace {} {}", errs, toks.join(" "));
    // implementation side of the answer: what really went over the wire
    let mut pubs: Vec<String> = Vec::new();
    for (_, uri, ver, _) in &obs.pubs {
        let d = match uri_idx(uri) { Some(d) => d, None => continue }; // probe document
        let v = ver.unwrap_or(-1);
        let mut t = 99999;
        for a in &sent { match a { Act::Open { d: dd, ver: vv, t: tt } | Act::Change { d: dd, ver: vv, t: tt } if *dd == d && *vv == v => t = *tt, _ => {} } }
        pubs.push(format!("{}:{}:{}", d, v, t));
    }
    let shared_died = log.iter().any(|l| l.tag == "die" && log.iter().any(|x| x.tag == "launch" && x.id == l.id));
    let launched = log.iter().filter(|l| l.tag.starts_with("launch")).count();
    let harvested = log.iter().filter(|l| l.tag == "harvest").count();
    let holding = log.iter().any(|l| l.tag == "acquire" && log.iter().any(|x| x.tag == "launch" && x.id == l.id)
        && !log.iter().any(|x| (x.tag == "finish" || x.tag == "die") && x.id == l.id));
    let lock = if shared_died { "poisoned" } else if holding { "held" } else { "free" };
    let ans = format!("ok pub={} lock={} queue={}", if pubs.is_empty() { "-".to_string() } else { pubs.join(",") }, lock, launched - harvested.min(launched));
    (req, ans)
}

// ------------------------------------------------------------------------------------------------
// oracles for one history case
// ------------------------------------------------------------------------------------------------

/// buffered verdicts of one case, so that a case can be re-run before anything is reported
#[derive(Default)]
struct Rep {
    oracles: Vec<(bool, String, String, String, bool)>,   // pass, name, sig, case, timing-dependent
    qs: Vec<(String, String)>,
    counts: Vec<(String, u64)>,
    cases: Vec<(Vec<u8>, bool)>,
    samples: Vec<String>,
}
impl Rep {
    fn count(&mut self, k: &str) { self.counts.push((k.to_string(), 1)); }
    fn count_n(&mut self, k: &str, n: u64) { self.counts.push((k.to_string(), n)); }
    fn oracle(&mut self, pass: bool, name: &str, sig: &str, case: &str) { self.oracles.push((pass, name.to_string(), sig.to_string(), case.to_string(), false)); }
    /// a verdict that a descheduled server or harness could produce by itself (a wait that ran out)
    fn oracle_t(&mut self, pass: bool, name: &str, sig: &str, case: &str) { self.oracles.push((pass, name.to_string(), sig.to_string(), case.to_string(), true)); }
    fn q(&mut self, r: &str, a: &str) { self.qs.push((r.to_string(), a.to_string())); }
    fn case(&mut self, c: &[u8], nt: bool) { self.cases.push((c.to_vec(), nt)); }
    fn sample(&mut self, s: &str) { self.samples.push(s.to_string()); }
    fn failed(&self) -> bool { self.oracles.iter().any(|o| !o.0) }
    /// re-run only if every failure is of the timing-dependent kind
    fn wants_rerun(&self) -> bool { self.failed() && self.oracles.iter().filter(|o| !o.0).all(|o| o.4) }
    fn emit(self, out: &mut Out) {
        for (k, n) in self.counts { out.count_n(&k, n); }
        for (p, n, s, c, _) in self.oracles { out.oracle(p, &n, &s, &c); }
        for (r, a) in self.qs { out.q(&r, &a); }
        for (c, nt) in self.cases { out.case(&c, nt); }
        for s in self.samples { out.sample(&s); }
    }
}

fn judge_case(case: &Case, obs: &Obs) -> Rep {
    let srv = case.lang.name();
    let desc = case.describe();
    let mut rep = Rep::default();
    let out = &mut rep;
    out.count(&format!("srv:{}", srv));
    out.count(if obs.hooks { "mode:hooks" } else { "mode:black-box(no hooks compiled in)" });
    if case.burst { out.count("shape:burst"); }
    if case.poison { out.count("shape:injected-thread-death"); }
    out.count_n("launches", case.launches() as u64);
    out.count_n("publications", obs.pubs.len() as u64);
    if !obs.started {
        out.oracle_t(false, "server-starts", &format!("c18/{}/server-does-not-start", srv), &format!("{} stderr={}", desc, obs.stderr.chars().take(200).collect::<String>()));
        return rep;
    }
    // out-of-order completion really happened?
    if obs.hooks {
        let fin: Vec<usize> = obs.log.iter().filter(|l| l.tag == "finish").map(|l| l.id).collect();
        if fin.windows(2).any(|w| w[1] < w[0]) { out.count("schedule:out-of-order-completion"); }
        if obs.log.iter().any(|l| l.tag == "launch-private") { out.count("schedule:private-analyzer-relaunch"); }
        if obs.log.iter().any(|l| l.tag == "die") { out.count("schedule:thread-died"); }
    }
    // panics nobody asked for
    let injected = obs.stderr.contains("a2kit_verif: injected panic");
    let foreign_panic = obs.stderr.lines().filter(|l| l.contains("panicked at")).any(|l| !l.contains("verif_hooks"));
    if foreign_panic {
        let sig = panic_sig(&obs.stderr.lines().filter(|l| l.contains("panicked at") && !l.contains("verif_hooks")).collect::<Vec<_>>().join("\n")).unwrap_or("panic:?".to_string());
        out.oracle(false, "no-thread-dies", &sig, &format!("{} stderr={}", desc, obs.stderr.chars().take(300).collect::<String>()));
    } else {
        out.oracle(true, "no-thread-dies", "-", &format!("idx={}", case.idx));
    }
    // (i) version order per document
    let ndocs = 4;
    let mut order_ok = true;
    for d in 0..ndocs {
        let u = uri_of(case.lang, case.idx, d);
        let vs: Vec<i64> = obs.pubs.iter().filter(|p| p.1 == u).map(|p| p.2.unwrap_or(-1)).collect();
        if vs.windows(2).any(|w| w[1] < w[0]) { order_ok = false; }
        if obs.pubs.iter().any(|p| p.1 == u && p.2.is_none()) { order_ok = false; }
    }
    out.oracle(order_ok, "versions-in-order", &format!("c18/{}/version-order", srv), &desc);
    // requests answered
    let all_answered = obs.req_sent.iter().all(|(id, _, _)| obs.req_answered.iter().any(|(i, _)| i == id));
    out.oracle_t(all_answered && obs.probe_request_answered, "requests-answered", &format!("c18/{}/request-unanswered", srv), &desc);
    for (id, ts, _) in &obs.req_sent {
        if let Some((_, ta)) = obs.req_answered.iter().find(|(i, _)| i == id) { if ta.saturating_sub(*ts) < 150 { out.count("request:answered-within-150ms"); } else { out.count("request:answered-later"); } }
    }
    if let (Some(hold), true) = (case.max_latency, obs.hooks) {
        // the first analysis keeps the mutex for `hold` ms.  A main loop that waits for it answers only
        // after that analysis' publication and later than the hold; a free main loop answers at once.
        // Both signs are required, so a slow machine alone cannot produce the verdict.
        let limit = hold * 8 / 10;
        let worst = obs.blocked.iter().filter(|(lat, after)| *after && *lat > limit).map(|(lat, _)| *lat).max();
        out.oracle_t(worst.is_none(), "request-not-blocked-by-analysis", &format!("c18/{}/main-loop-waits-for-analysis", srv),
            &format!("{} hold-ms={} limit={} (latency,after-held-publication)={:?}", desc, hold, limit, obs.blocked));
    }
    out.oracle(obs.alive_end, "server-alive", &format!("c18/{}/server-died", srv), &format!("{} stderr={}", desc, obs.stderr.chars().take(200).collect::<String>()));
    let dead_analyzer = injected || foreign_panic;
    // with Merlin's live diagnostics switched off a change is (by design) not analysed until the next
    // configuration answer or save: "last published = last sent" is then left to the trace validation
    let live_off = case.steps.iter().any(|(_, a)| matches!(a, Act::Config { live: false }));
    if live_off { out.count("shape:merlin-live-diagnostics-off"); }
    if !dead_analyzer {
        // still publishes for a new edit
        out.oracle_t(obs.probe_published, "publishes-after-history", &format!("c18/{}/no-diagnostics-after-history", srv), &desc);
        // (ii) last publication = last version sent = fresh analysis of the final text
        for (d, (ver, _t, fresh)) in obs.fresh.iter().filter(|_| !live_off) {
            let u = uri_of(case.lang, case.idx, *d);
            let lastp = obs.pubs.iter().filter(|p| p.1 == u).last();
            match lastp {
                Some(p) if p.2 == Some(*ver) => {
                    out.oracle(true, "last-is-latest", "-", &format!("idx={}", case.idx));
                    match fresh.clone() {
                        Some(f) => {
                            let same = f == p.3;
                            if !same { out.count("fresh:differs"); }
                            out.oracle(same, "equals-fresh-analysis", &format!("c18/{}/diagnostics-differ-from-fresh-analysis", srv),
                                &format!("{} doc={} got={} fresh={}", desc, d, p.3.chars().take(300).collect::<String>(), f.chars().take(300).collect::<String>()));
                        }
                        None => out.oracle_t(false, "equals-fresh-analysis", &format!("c18/{}/fresh-server-publishes-nothing", srv), &format!("{} doc={}", desc, d)),
                    }
                }
                Some(p) => out.oracle_t(false, "last-is-latest", &format!("c18/{}/stale-diagnostics-after-burst", srv),
                    &format!("{} doc={} last-published-version={:?} last-sent={}", desc, d, p.2, ver)),
                None => out.oracle_t(false, "last-is-latest", &format!("c18/{}/no-diagnostics-for-document", srv), &format!("{} doc={} last-sent={}", desc, d, ver)),
            }
        }
    } else if injected {
        // the model's prediction for a poisoned analyzer is checked by the trace; black-box: nothing new comes out
        out.count("poison:probe-silent");
        if obs.probe_published { out.count("poison:probe-still-published"); }
    }
    // model vs implementation
    if obs.hooks {
        let (req, ans) = build_trace(case, obs);
        // a trace cut short by a wait that ran out (job never harvested, launch never seen) is not evidence
        let incomplete = req.contains(":?") || req.contains("?launch-missing");
        if incomplete {
            out.oracle_t(false, "trace-complete", &format!("c18/{}/trace-incomplete", srv), &format!("{} trace={}", desc, req.chars().take(400).collect::<String>()));
        } else {
            out.oracle(true, "trace-complete", "-", &format!("idx={}", case.idx));
            out.q(&req, &ans);
        }
    }
    let canon = format!("{}|{}", desc, obs.hooks);
    out.case(canon.as_bytes(), case.launches() >= 2);
    out.sample(&desc);
    rep
}

// ------------------------------------------------------------------------------------------------
// robustness stream
// ------------------------------------------------------------------------------------------------

const IGNORE_ALL: &str = r#"{"flag":{"caseSensitive":"ignore","terminalString":"ignore","collisions":"ignore","undeclaredArrays":"ignore","undefinedVariables":"ignore","badReferences":"ignore","extendedCall":"ignore","immediateMode":"ignore","unclosedFolds":"ignore"}}"#;
const ERROR_ALL: &str = r#"{"flag":{"caseSensitive":"error","terminalString":"error","collisions":"error","undeclaredArrays":"error","undefinedVariables":"error","badReferences":"error","extendedCall":"error","immediateMode":"error","unclosedFolds":"error"}}"#;

/// `cfg`: 0 default settings, 1 every optional diagnostic ignored, 2 every optional diagnostic an error
fn analyze_in_process(lang: Lang, text: &str, cfg: usize) -> Result<bool, String> {
    let doc = a2kit::lang::Document::from_string(text.to_string(), 1);
    let json = match cfg % 3 { 1 => Some(IGNORE_ALL), 2 => Some(ERROR_ALL), _ => None };
    let r = guarded(|| match lang {
        Lang::Applesoft => { let mut a = a2kit::lang::applesoft::diagnostics::Analyzer::new(); if let Some(j) = json { let _ = a.update_config(j); } let r = a.analyze(&doc).is_ok(); let _ = a.get_diags(&doc); r }
        Lang::Integer => { let mut a = a2kit::lang::integer::diagnostics::Analyzer::new(); if let Some(j) = json { let _ = a.update_config(j); } let r = a.analyze(&doc).is_ok(); let _ = a.get_diags(&doc); r }
        Lang::Merlin => { let mut a = a2kit::lang::merlin::diagnostics::Analyzer::new(); if let Some(j) = json { let _ = a.update_config(j); } let r = a.analyze(&doc).is_ok(); let _ = a.get_diags(&doc); r }
    });
    r
}

struct OddResult { idx: usize, kind: &'static str, len: usize, published: bool, answered: bool, alive: bool, stderr: String, inproc: Result<bool, String> }

/// one server instance per chunk; a document that silences or kills it is reported and the server restarted
fn run_odd_chunk(bin_dir: &str, lang: Lang, docs: &[(usize, String, &'static str, Result<bool, String>)]) -> Vec<OddResult> {
    let mut res = Vec::new();
    let mut client: Option<Client> = None;
    for (idx, text, kind, inproc) in docs {
        if client.is_none() {
            let mut c = match Client::spawn(&format!("{}/{}", bin_dir, lang.exe()), &[]) { Some(c) => c, None => continue };
            if !c.initialize() { c.shutdown(); continue; }
            client = Some(c);
        }
        let c = client.as_mut().unwrap();
        let t_doc = Instant::now();
        let uri = format!("file:///c18/odd/d{}.{}", idx, lang.ext());
        did_open(c, &uri, 1, text);
        let nlines = text.lines().count().max(1);
        let mut ids = Vec::new();
        for k in 0..5 { ids.push(send_request(c, k, &uri, (idx + k) % nlines, (idx * 7 + k) % 20)); }
        let u = uri.clone();
        let budget = T_PUBLISH + 4 * text.len() as u64;
        let published = c.wait_for(|ms| ms.iter().any(|(_, m)| m["method"] == "textDocument/publishDiagnostics" && m["params"]["uri"] == u.as_str()), budget);
        let mut answered = true;
        let t_req = Instant::now();
        for id in ids {
            let left = T_REQ.saturating_sub(t_req.elapsed().as_millis() as u64).max(50);
            if !c.has_response(id, left) { answered = false; }
        }
        let alive = c.alive();
        let stderr = c.stderr_text();
        let bad = !published || !answered || !alive;
        if std::env::var("C18_TIMING").is_ok() { eprintln!("c18: odd {} {} {} len={} took {:?}", lang.name(), idx, kind, text.len(), t_doc.elapsed()); }
        res.push(OddResult { idx: *idx, kind, len: text.len(), published, answered, alive, stderr: if bad { stderr } else { String::new() }, inproc: inproc.clone() });
        if bad { client.take().unwrap().shutdown(); }
        else { did_close(c, &uri); }
    }
    if let Some(c) = client { c.shutdown(); }
    res
}

// ------------------------------------------------------------------------------------------------
// entry
// ------------------------------------------------------------------------------------------------

pub fn run(ctx: &mut Ctx) {
    let bin_dir = match build_servers() {
        Ok(d) => d,
        Err(e) => {
            ctx.out.oracle(false, "servers-build", "c18/servers-do-not-build", &format!("idx=0 {}", e));
            return;
        }
    };
    let mut rng = Rng::new(ctx.seed ^ 0xC18);
    // ---- history cases ----
    let t_start = Instant::now();
    let n_hist = ctx.n(12, 80);
    let mut cases: Vec<Case> = Vec::new();
    for lang in Lang::all() {
        for k in 0..n_hist {
            let idx = lang.idx() * 1000 + k;
            let mut r = rng.fork(idx as u64);
            cases.push(gen_case(lang, idx, &mut r));
        }
        let mut r = rng.fork(9000 + lang.idx() as u64);
        cases.extend(fixed_cases(lang, 9000 + lang.idx() * 10, &mut r));
    }
    let cases: Vec<Case> = cases.into_iter().filter(|c| ctx.out.wants(c.idx)).collect();
    // run them on a small pool (server processes mostly sleep); a case whose only failures are of the
    // timing-dependent kind is run again, up to two more times, and reported only if it fails every time
    let width = 10usize;
    let mut final_reps: BTreeMap<usize, Rep> = BTreeMap::new();
    let mut todo: Vec<usize> = (0..cases.len()).collect();
    for round in 0..3 {
        if todo.is_empty() { break; }
        let queue = Arc::new(Mutex::new(todo.iter().map(|i| (*i, cases[*i].clone())).collect::<Vec<_>>()));
        let results: Arc<Mutex<Vec<(usize, Obs)>>> = Arc::new(Mutex::new(Vec::new()));
        let mut hs = Vec::new();
        for _ in 0..width.min(todo.len()) {
            let queue = Arc::clone(&queue);
            let results = Arc::clone(&results);
            let bin_dir = bin_dir.clone();
            hs.push(std::thread::spawn(move || loop {
                let item = queue.lock().unwrap().pop();
                match item {
                    Some((i, case)) => { let o = run_case(&bin_dir, &case, "h"); results.lock().unwrap().push((i, o)); }
                    None => break,
                }
            }));
        }
        for h in hs { let _ = h.join(); }
        let results = std::mem::take(&mut *results.lock().unwrap());
        let mut again = Vec::new();
        for (i, obs) in &results {
            let rep = judge_case(&cases[*i], obs);
            if round > 0 { ctx.out.count(if rep.failed() { "retry:failed-again" } else { "retry:passed-on-rerun" }); }
            if rep.wants_rerun() && round < 2 {
                ctx.out.count("retry:history-rerun");
                eprintln!("c18: re-running idx={} ({})", cases[*i].idx, rep.oracles.iter().filter(|o| !o.0).map(|o| o.2.clone()).collect::<Vec<_>>().join(","));
                again.push(*i);
            } else {
                final_reps.insert(*i, rep);
            }
        }
        again.sort();
        todo = again;
    }
    for (_, rep) in final_reps { rep.emit(&mut ctx.out); }

    eprintln!("c18: histories done at {:?}", t_start.elapsed());
    // ---- robustness stream ----
    let n_odd = ctx.n(36, 600);
    let n_inproc = ctx.n(420, 8000);
    for lang in Lang::all() {
        let mut docs: Vec<(usize, String, &'static str, Result<bool, String>)> = Vec::new();
        let mut suspicious: Vec<(usize, String, &'static str, Result<bool, String>)> = Vec::new();
        for k in 0..n_inproc {
            let idx = 20000 + lang.idx() * 100000 + k;
            let mut r = rng.fork(idx as u64);
            let (text, kind) = odd_text(lang, k, &mut r);
            if !ctx.out.wants(idx) { continue; }
            let t_in = Instant::now();
            let inproc = analyze_in_process(lang, &text, 0);
            // the same text under the two extreme settings (severity `None` / everything an error)
            for cfg in 1..3 {
                if (k + cfg) % 4 != 0 && !ctx.tier_thorough { continue; }
                if let Err(p) = analyze_in_process(lang, &text, cfg) {
                    ctx.out.oracle(false, "odd-document-analysed-under-settings", &format!("panic:{}", panic_site(&p).split(':').next().unwrap_or("?")),
                        &format!("idx={} srv={} kind={} settings={} panic={}", idx, lang.name(), kind, if cfg == 1 { "ignore-all" } else { "error-all" }, p.chars().take(200).collect::<String>()));
                } else { ctx.out.count("odd-inproc:settings-variant-ok"); }
            }
            if std::env::var("C18_TIMING").is_ok() && t_in.elapsed() > Duration::from_millis(300) { eprintln!("c18: inproc {} {} {} len={} took {:?}", lang.name(), idx, kind, text.len(), t_in.elapsed()); }
            ctx.out.count(&format!("odd:{}", kind));
            match &inproc {
                Ok(true) => {}
                Ok(false) => ctx.out.count("odd-inproc:analyze-returned-err"),
                Err(_) => ctx.out.count("odd-inproc:panic"),
            }
            let interesting = !matches!(inproc, Ok(true));
            if interesting { if suspicious.len() < 12 { suspicious.push((idx, text, kind, inproc)); } }
            else if docs.len() < n_odd && (k < n_odd || ctx.out.only.is_some()) { docs.push((idx, text, kind, inproc)); }
            else { ctx.out.case(format!("odd|{}|{}", lang.name(), idx).as_bytes(), true); }
        }
        eprintln!("c18: {} in-process done at {:?}", lang.name(), t_start.elapsed());
        // the real server: everything suspicious first, then the sample
        suspicious.extend(docs);
        let chunks: Vec<Vec<_>> = suspicious.chunks(suspicious.len().div_ceil(6).max(1)).map(|c| c.to_vec()).collect();
        let mut hs = Vec::new();
        for ch in chunks {
            let bin_dir = bin_dir.clone();
            hs.push(std::thread::spawn(move || run_odd_chunk(&bin_dir, lang, &ch)));
        }
        let mut all: Vec<OddResult> = Vec::new();
        for h in hs { if let Ok(v) = h.join() { all.extend(v); } }
        // a document whose only symptom is a wait that ran out (no panic, server alive) is tried again,
        // alone on a fresh server, up to two more times
        for r in all.iter_mut() {
            let mut tries = 0;
            while !(r.published && r.answered) && r.alive && panic_sig(&r.stderr).is_none() && tries < 2 {
                tries += 1;
                ctx.out.count("retry:odd-document-rerun");
                if let Some(d) = suspicious.iter().find(|d| d.0 == r.idx) {
                    if let Some(n) = run_odd_chunk(&bin_dir, lang, std::slice::from_ref(d)).pop() { *r = n; }
                }
                ctx.out.count(if r.published && r.answered && r.alive { "retry:passed-on-rerun" } else { "retry:failed-again" });
            }
        }
        all.sort_by_key(|r| r.idx);
        for r in all {
            let srv = lang.name();
            let case = format!("idx={} srv={} kind={} len={} published={} answered={} alive={} inproc={:?} stderr={}", r.idx, srv, r.kind, r.len, r.published, r.answered, r.alive,
                r.inproc.as_ref().map_err(|e| panic_site(e)), r.stderr.chars().take(240).collect::<String>());
            let psig = panic_sig(&r.stderr);
            let ok = r.published && r.answered && r.alive;
            let sig = if ok { "-".to_string() } else if let Some(p) = psig { p } else if !r.alive { format!("c18/{}/server-died", srv) }
                else if !r.published { format!("c18/{}/no-diagnostics-for-document", srv) } else { format!("c18/{}/request-unanswered", srv) };
            ctx.out.oracle(ok, "odd-document-served", &sig, &case);
            ctx.out.count("odd:sent-to-server");
            ctx.out.case(format!("odd|{}|{}", srv, r.idx).as_bytes(), true);
        }
    }
}
