//! harness family c08: sector/block storage is exact and non-interfering (property C08)
//!
//! Part A (idx 0..): nibble codecs 4&4, 6&2, 5&3 on single tracks made with the public
//!   `disk525::format_std16_track/format_std13_track` and driven through the public `TrackBits`
//!   trait object; the data-field nibbles are cut out of the track and compared with the Lean model.
//! Part B (idx 100000..): random op sequences on whole images of all ten formats (see below).
use crate::util::*;
use a2kit::img::disk525;
use a2kit::img::{NibbleError, TrackBits};

const SKEW13: [u8; 13] = [0, 10, 7, 4, 1, 11, 8, 5, 2, 12, 9, 6, 3];

fn nib_err(e: &NibbleError) -> &'static str {
    match e {
        NibbleError::BadTrack => "bad-track",
        NibbleError::InvalidByte => "invalid-byte",
        NibbleError::BadChecksum => "bad-checksum",
        NibbleError::BitPatternNotFound => "pattern-not-found",
        NibbleError::SectorNotFound => "sector-not-found",
        NibbleError::NibbleType => "nibble-type",
    }
}

/// sector contents: the classes named in the property's tie
fn sector_content(rng: &mut Rng, class: usize, sub: usize) -> (Vec<u8>, String) {
    match class {
        0 => (rng.bytes(256), "random".into()),
        1 => { let b = rng.byte(); (vec![b; 256], "all-equal".into()) }
        2 => { let mut v = vec![0u8; 256]; let p = rng.below(256); v[p] = 1 << rng.below(8); (v, "single-bit".into()) }
        3 => {
            // byte value `sub % 256` at one of three positions, rest random-but-fixed filler
            let val = (sub % 256) as u8;
            let pos = [0usize, 85, 86, 171, 172, 254, 255, 128][(sub / 256) % 8];
            let fill = if rng.chance(50) { 0 } else { rng.byte() };
            let mut v = vec![fill; 256];
            v[pos] = val;
            (v, "byte-at-pos".into())
        }
        4 => { let mut v = vec![0xffu8; 256]; let p = rng.below(256); v[p] ^= 1 << rng.below(8); (v, "single-zero-bit".into()) }
        _ => { let a = rng.byte(); let b = rng.byte(); ((0..256).map(|i| if i % 2 == 0 { a } else { b }).collect(), "alternating".into()) }
    }
}

/// Cut the data field nibbles of the sector with address `sector` out of an aligned nibble stream.
/// `apro3` is the third address prolog byte (0x96 / 0xB5), `n` the number of data nibbles.
fn data_field(nibs: &[u8], apro3: u8, sector: u8, n: usize) -> Option<(usize, Vec<u8>)> {
    let len = nibs.len();
    let mut i = 0;
    while i + 14 < len {
        if nibs[i] == 0xd5 && nibs[i + 1] == 0xaa && nibs[i + 2] == apro3 {
            let sec = disk525::decode_44([nibs[i + 7], nibs[i + 8]]);
            if sec == sector {
                // data prolog must follow within the gap
                let mut j = i + 11;
                while j + 3 + n <= len && j < i + 11 + 60 {
                    if nibs[j] == 0xd5 && nibs[j + 1] == 0xaa && nibs[j + 2] == 0xad {
                        return Some((j + 3, nibs[j + 3..j + 3 + n].to_vec()));
                    }
                    j += 1;
                }
                return None;
            }
            i += 11;
        } else {
            i += 1;
        }
    }
    None
}

fn addr_field(nibs: &[u8], apro3: u8) -> Option<Vec<u8>> {
    for i in 0..nibs.len().saturating_sub(11) {
        if nibs[i] == 0xd5 && nibs[i + 1] == 0xaa && nibs[i + 2] == apro3 {
            return Some(nibs[i + 3..i + 11].to_vec());
        }
    }
    None
}

struct TrackCase {
    six_two: bool,
    sync_bits: usize,
    vol: u8,
    track: u8,
}

fn make_track(tc: &TrackCase) -> (Vec<u8>, Box<dyn TrackBits>) {
    let buf_len = if tc.sync_bits == 8 { 6656 } else { 6646 };
    if tc.six_two { disk525::format_std16_track(tc.vol, tc.track, buf_len, tc.sync_bits) }
    else { disk525::format_std13_track(tc.vol, tc.track, buf_len, tc.sync_bits) }
}

fn codec_case(ctx: &mut Ctx, gidx: usize, idx: usize, rng: &mut Rng) {
    let six_two = idx % 2 == 0;
    let nsec: usize = if six_two { 16 } else { 13 };
    let nn = if six_two { 343 } else { 411 };
    let (enc_op, dec_op) = if six_two { ("enc62", "dec62") } else { ("enc53", "dec53") };
    let apro3 = if six_two { 0x96 } else { 0xb5 };
    let sync_bits = match (idx / 2) % 3 { 0 => 8, 1 => if six_two { 10 } else { 9 }, _ => *rng.pick(&[8usize, 9, 10]) };
    let tc = TrackCase { six_two, sync_bits, vol: rng.byte(), track: rng.below(35) as u8 };
    let class = if idx < 4096 { 3 } else { [0, 0, 0, 1, 2, 4, 5, 3][rng.below(8)] };
    let nwrites = 1 + rng.below(3);
    let mut desc = format!("idx={} codec={} sync={} vol={} track={}", gidx, if six_two { "62" } else { "53" }, sync_bits, tc.vol, tc.track);
    let mut canon: Vec<u8> = vec![six_two as u8, sync_bits as u8];
    let res = guarded(|| {
        let mut out: Vec<(String, String)> = Vec::new(); // Q lines
        let mut fails: Vec<(String, String)> = Vec::new(); // (oracle, sig)
        let (mut bits, mut obj) = make_track(&tc);
        if rng.chance(50) { obj.set_bit_ptr(rng.below(obj.bit_count())); }
        let mut expect: Vec<Vec<u8>> = vec![vec![0u8; 256]; nsec];
        let mut written: Vec<(u8, Vec<u8>)> = Vec::new();
        for w in 0..nwrites {
            let sector = rng.below(nsec) as u8;
            let (dat, cls) = sector_content(rng, class, idx / 2 + w * 977);
            match obj.write_sector(&mut bits, &dat, tc.track, sector) {
                Ok(()) => {}
                Err(e) => { fails.push(("codec-write-accepted".into(), format!("codec/write-refused/{}", nib_err(&e)))); continue; }
            }
            expect[sector as usize] = dat.clone();
            written.push((sector, dat.clone()));
            // model comparison: the nibbles now in the data field
            let save = obj.get_bit_ptr();
            let nibs = obj.to_nibbles(&bits);
            obj.set_bit_ptr(save);
            match data_field(&nibs, apro3, sector, nn) {
                Some((_, field)) => out.push((format!("c08 {} {}", enc_op, hx(&dat)), hx(&field))),
                None => fails.push(("codec-field-present".into(), "codec/data-field-not-found".into())),
            }
            // direct oracle: everything on the track reads as expected, in a random order
            let mut order: Vec<usize> = (0..nsec).collect();
            for i in (1..nsec).rev() { let j = rng.below(i + 1); order.swap(i, j); }
            for s in order {
                match obj.read_sector(&bits, tc.track, s as u8) {
                    Ok(got) => if got != expect[s] {
                        let sig = if s as u8 == sector { "codec/readback-differs" } else { "codec/other-sector-changed" };
                        fails.push(("codec-readback".into(), sig.into()));
                    },
                    Err(e) => fails.push(("codec-readback".into(), format!("codec/read-refused/{}", nib_err(&e)))),
                }
            }
            // wrong track number in the request must be refused
            if w == 0 {
                let wrong = tc.track.wrapping_add(1 + rng.below(200) as u8);
                if wrong != tc.track {
                    if let Ok(_) = obj.read_sector(&bits, wrong, sector) { fails.push(("codec-wrong-track".into(), "codec/wrong-track-accepted".into())); }
                }
                if let Ok(_) = obj.read_sector(&bits, tc.track, nsec as u8 + rng.below(200) as u8) { fails.push(("codec-wrong-sector".into(), "codec/missing-sector-accepted".into())); }
            }
            desc += &format!(" w{}=({},{})", w, sector, cls);
            canon.push(sector); canon.extend_from_slice(&dat);
        }
        // decoder on damaged fields (aligned 8-bit tracks only, where a byte is a nibble)
        if sync_bits == 8 && !written.is_empty() {
            let (sector, _) = written[written.len() - 1].clone();
            // position of the field in the raw buffer = position in the aligned stream from the start
            if let Some((off, field)) = data_field(&bits, apro3, sector, nn) {
                let mut dmg = field.clone();
                let kind = rng.below(4);
                let npos = 1 + rng.below(3);
                for _ in 0..npos {
                    let p = rng.below(nn);
                    dmg[p] = match kind {
                        0 => 0x80 | rng.byte(),                       // any byte with the high bit set
                        1 => field[rng.below(nn)],                    // some valid disk byte
                        2 => *rng.pick(&[0xd5u8, 0xaa, 0x80, 0x95, 0x94]), // never in a table
                        _ => dmg[p] ^ (1 << rng.below(7)),
                    };
                }
                bits[off..off + nn].copy_from_slice(&dmg);
                let ans = match obj.read_sector(&bits, tc.track, sector) {
                    Ok(v) => format!("ok {}", hx(&v)),
                    Err(e) => format!("err {}", nib_err(&e)),
                };
                out.push((format!("c08 {} {}", dec_op, hx(&dmg)), ans));
                bits[off..off + nn].copy_from_slice(&field);
            }
        }
        // decoder on the intact field of the last write
        if let Some((sector, _)) = written.last().cloned() {
            let save = obj.get_bit_ptr();
            let nibs = obj.to_nibbles(&bits);
            obj.set_bit_ptr(save);
            if let Some((_, field)) = data_field(&nibs, apro3, sector, nn) {
                let ans = match obj.read_sector(&bits, tc.track, sector) {
                    Ok(v) => format!("ok {}", hx(&v)),
                    Err(e) => format!("err {}", nib_err(&e)),
                };
                out.push((format!("c08 {} {}", dec_op, hx(&field)), ans));
            }
        }
        (out, fails, desc.clone())
    });
    match res {
        Ok((out, fails, d)) => {
            for (q, a) in &out { ctx.out.q(q, a); }
            if fails.is_empty() { ctx.out.oracle(true, "codec-track", "-", &d); }
            for (o, s) in &fails { ctx.out.oracle(false, o, s, &d); }
            ctx.out.sample(&d);
            ctx.out.count(if six_two { "codec:62" } else { "codec:53" });
            ctx.out.count(&format!("codec:sync{}", sync_bits));
        }
        Err(p) => ctx.out.oracle(false, "codec-no-panic", &format!("panic:{}", panic_site(&p)), &desc),
    }
    ctx.out.case(&canon, true);
}


// ---- 3.5 inch 524-byte codec on real WOZ2-style tracks -------------------------------------------

fn content35(rng: &mut Rng, class: usize, sub: usize) -> (Vec<u8>, &'static str) {
    match class {
        0 => (rng.bytes(524), "random"),
        1 => { let b = rng.byte(); (vec![b; 524], "all-equal") }
        2 => { let mut v = vec![0u8; 524]; let p = rng.below(524); v[p] = 1 << rng.below(8); (v, "single-bit") }
        3 => {
            // byte value at one of the positions that matter for the triples and the 2-byte tail
            let val = (sub % 256) as u8;
            let pos = [0usize, 1, 2, 3, 11, 12, 521, 522, 523, 260, 261, 262][(sub / 256) % 12];
            let fill = if rng.chance(50) { 0 } else { rng.byte() };
            let mut v = vec![fill; 524];
            v[pos] = val;
            (v, "byte-at-pos")
        }
        4 => (vec![0xff; 524], "all-ones"), // every checksum carries
        _ => { let a = rng.byte(); let b = rng.byte(); let c = rng.byte(); ((0..524).map(|i| [a, b, c][i % 3]).collect(), "period-3") }
    }
}

/// data field of `sector` in an aligned 3.5 inch nibble stream: after `D5 AA 96 cyl sec side fmt chk`,
/// the data prolog `D5 AA AD`, the sector nibble, then 703 nibbles
fn data_field35(nibs: &[u8], sector: u8) -> Option<Vec<u8>> {
    let inv = a2kit::img::disk35::invert_62();
    let len = nibs.len();
    let mut i = 0;
    while i + 10 < len {
        if nibs[i] == 0xd5 && nibs[i + 1] == 0xaa && nibs[i + 2] == 0x96 {
            if let Ok(sec) = a2kit::img::disk35::decode_62(nibs[i + 4], inv) {
                if sec == sector {
                    let mut j = i + 8;
                    while j + 4 + 703 <= len && j < i + 8 + 40 {
                        if nibs[j] == 0xd5 && nibs[j + 1] == 0xaa && nibs[j + 2] == 0xad { return Some(nibs[j + 4..j + 4 + 703].to_vec()); }
                        j += 1;
                    }
                    return None;
                }
            }
            i += 8;
        } else { i += 1; }
    }
    None
}

fn get_bits(buf: &[u8], off: usize, n: usize) -> Vec<u8> {
    // n nibbles (8 bits each) starting at bit offset `off`
    (0..n).map(|k| { let mut v = 0u8; for b in 0..8 { let p = off + 8 * k + b; v = (v << 1) | ((buf[p / 8] >> (7 - p % 8)) & 1); } v }).collect()
}
fn put_bits(buf: &mut [u8], off: usize, nibs: &[u8]) {
    for (k, x) in nibs.iter().enumerate() { for b in 0..8 { let p = off + 8 * k + b; let m = 1u8 << (7 - p % 8); if (x >> (7 - b)) & 1 == 1 { buf[p / 8] |= m } else { buf[p / 8] &= !m } } }
}

fn codec35_case(ctx: &mut Ctx, gidx: usize, sub: usize, rng: &mut Rng) {
    let sides = 1 + (sub % 2);
    let track = if rng.chance(30) { *rng.pick(&[0usize, 15, 16, 63, 64, 79]) * sides + rng.below(sides) } else { rng.below(80 * sides) } as u8;
    let zone = (track as usize / sides) / 16;
    let nsec = [12usize, 11, 10, 9, 8][zone];
    let bytes = a2kit::img::disk35::TRACK_BITS[zone] / 8;
    let class = if sub < 3072 { 3 } else { [0, 0, 0, 1, 2, 4, 5, 3][rng.below(8)] };
    let nwrites = 1 + rng.below(3);
    let mut desc = format!("idx={} codec=35 sides={} track={} zone={}", gidx, sides, track, zone);
    let mut canon: Vec<u8> = vec![35, sides as u8, track];
    let res = guarded(|| {
        let mut out: Vec<(String, String)> = Vec::new();
        let mut fails: Vec<(String, String)> = Vec::new();
        let (mut bits, mut obj) = a2kit::img::disk35::create_std_track(track, sides as u8, bytes + (512 - bytes % 512) + 512);
        if rng.chance(50) { obj.set_bit_ptr(rng.below(obj.bit_count())); }
        let mut expect: Vec<Vec<u8>> = vec![vec![0u8; 524]; nsec];
        let mut last: Option<(u8, Vec<u8>)> = None;
        for w in 0..nwrites {
            let sector = rng.below(nsec) as u8;
            let (dat, cls) = content35(rng, class, sub / 2 + w * 977);
            if let Err(e) = obj.write_sector(&mut bits, &dat, track, sector) { fails.push(("codec-write-accepted".into(), format!("codec35/write-refused/{}", nib_err(&e)))); continue; }
            expect[sector as usize] = dat.clone();
            let save = obj.get_bit_ptr();
            let nibs = obj.to_nibbles(&bits);
            obj.set_bit_ptr(save);
            match data_field35(&nibs, sector) {
                Some(field) => { out.push((format!("c08 enc35 {}", hx(&dat)), hx(&field))); last = Some((sector, field)); }
                None => fails.push(("codec-field-present".into(), "codec35/data-field-not-found".into())),
            }
            let mut order: Vec<usize> = (0..nsec).collect();
            for i in (1..nsec).rev() { let j = rng.below(i + 1); order.swap(i, j); }
            for s in order {
                match obj.read_sector(&bits, track, s as u8) {
                    Ok(got) => if got != expect[s] { fails.push(("codec-readback".into(), (if s as u8 == sector { "codec35/readback-differs" } else { "codec35/other-sector-changed" }).into())); },
                    Err(e) => fails.push(("codec-readback".into(), format!("codec35/read-refused/{}", nib_err(&e)))),
                }
            }
            if w == 0 {
                if let Ok(_) = obj.read_sector(&bits, track, nsec as u8 + rng.below(40) as u8) { fails.push(("codec-wrong-sector".into(), "codec35/missing-sector-accepted".into())); }
                let wrong = (track as usize + 1 + rng.below(100)) as u8;
                if let Ok(_) = obj.read_sector(&bits, wrong, sector) { fails.push(("codec-wrong-track".into(), "codec35/wrong-track-accepted".into())); }
            }
            desc += &format!(" w{}=({},{})", w, sector, cls);
            canon.push(sector); canon.extend_from_slice(&dat);
        }
        // decoder on the intact and on a damaged field; the field is located in the raw bit buffer by
        // searching the bit offset at which the 703 nibbles appear (fields are not byte aligned here)
        if let Some((sector, field)) = last {
            let ans = match obj.read_sector(&bits, track, sector) { Ok(v) => format!("ok {}", hx(&v)), Err(e) => format!("err {}", nib_err(&e)) };
            out.push((format!("c08 dec35 {}", hx(&field)), ans));
            let total = obj.bit_count();
            let mut found = None;
            let mut off = 0;
            while off + 703 * 8 <= total {
                if get_bits(&bits, off, 6) == field[0..6] && get_bits(&bits, off, 703) == field { found = Some(off); break; }
                off += 1;
            }
            if let Some(off) = found {
                let mut dmg = field.clone();
                let kind = rng.below(4);
                for _ in 0..1 + rng.below(3) {
                    let p = rng.below(703);
                    dmg[p] = match kind { 0 => 0x80 | rng.byte(), 1 => field[rng.below(703)], 2 => *rng.pick(&[0xd5u8, 0xaa, 0x80, 0x95, 0x94]), _ => dmg[p] ^ (1 << rng.below(7)) };
                }
                put_bits(&mut bits, off, &dmg);
                // the same nibbles may also be the field of another sector: make sure it is this one
                let save = obj.get_bit_ptr();
                let nibs = obj.to_nibbles(&bits);
                obj.set_bit_ptr(save);
                if data_field35(&nibs, sector) == Some(dmg.clone()) {
                    let ans = match obj.read_sector(&bits, track, sector) { Ok(v) => format!("ok {}", hx(&v)), Err(e) => format!("err {}", nib_err(&e)) };
                    out.push((format!("c08 dec35 {}", hx(&dmg)), ans));
                }
                put_bits(&mut bits, off, &field);
            }
        }
        (out, fails, desc.clone())
    });
    match res {
        Ok((out, fails, d)) => {
            for (q, a) in &out { ctx.out.q(q, a); }
            if fails.is_empty() { ctx.out.oracle(true, "codec35-track", "-", &d); }
            for (o, s) in &fails { ctx.out.oracle(false, o, s, &d); }
            ctx.out.sample(&d);
            ctx.out.count("codec:35");
        }
        Err(p) => ctx.out.oracle(false, "codec-no-panic", &format!("panic:{}", panic_site(&p)), &desc),
    }
    ctx.out.case(&canon, true);
}


// ---- op sequences on one 5.25 inch track: the real TrackBits object against Model.Track ----------

fn rotate_bits(buf: &mut Vec<u8>, n: usize, k: usize) {
    // rotate the first n bits left by k (bit j of the result = bit (j+k)%n of the original)
    let get = |b: &Vec<u8>, p: usize| (b[p / 8] >> (7 - p % 8)) & 1;
    let orig = buf.clone();
    for j in 0..n {
        let v = get(&orig, (j + k) % n);
        let m = 1u8 << (7 - j % 8);
        if v == 1 { buf[j / 8] |= m } else { buf[j / 8] &= !m }
    }
}

fn track_case(ctx: &mut Ctx, idx: usize, rng: &mut Rng) {
    let six_two = rng.chance(65);
    let nsec: usize = if six_two { 16 } else { 13 };
    let sync_bits = *rng.pick(&[8usize, 10, if six_two { 10 } else { 9 }]);
    let tc = TrackCase { six_two, sync_bits, vol: rng.byte(), track: rng.below(35) as u8 };
    let nops = 3 + rng.below(7);
    let mut desc = format!("idx={} trackseq codec={} sync={} vol={} track={}", idx, if six_two { "62" } else { "53" }, sync_bits, tc.vol, tc.track);
    let res = guarded(|| {
        let mut fails: Vec<(String, String)> = Vec::new();
        let (mut bits, mut obj) = make_track(&tc);
        let n = obj.bit_count();
        // rotate the track so that the end of the buffer falls somewhere else (mostly inside a data field)
        let rot = if rng.chance(60) { rng.below(n) } else { 0 };
        if rot > 0 { rotate_bits(&mut bits, n, rot); }
        // positions known to be on a nibble boundary: the (rotated) track start, and wherever an operation stopped
        let mut aligned: Vec<usize> = vec![(n - rot) % n];
        let start = if rng.chance(70) { aligned[0] } else { rng.below(n) };
        let mut trusted = start == aligned[0] || sync_bits > 8; // 8-bit sync tracks cannot re-synchronise
        obj.set_bit_ptr(start);
        let buf0 = bits.clone();
        let mut expect: Vec<Vec<u8>> = vec![vec![0u8; 256]; nsec];
        let mut ops: Vec<String> = Vec::new();
        let mut ans: Vec<String> = Vec::new();
        desc += &format!(" rot={} start={} ops=", rot, start);
        for _ in 0..nops {
            let r = rng.below(100);
            let sector = if rng.chance(8) { nsec + rng.below(20) } else { rng.below(nsec) } as u8;
            let track = if rng.chance(6) { tc.track.wrapping_add(1 + rng.below(30) as u8) } else { tc.track };
            let valid = (sector as usize) < nsec && track == tc.track;
            if r < 45 {
                let cls = [0, 0, 1, 2, 4, 5][rng.below(6)];
                let (dat, _) = sector_content(rng, cls, 0);
                ops.push(format!("w:{}:{}:{}", track, sector, hx(&dat)));
                desc += &format!("W{}/{} ", track, sector);
                match obj.write_sector(&mut bits, &dat, track, sector) {
                    Ok(()) => { ans.push("ok".into()); if valid { expect[sector as usize] = dat; } else if trusted { fails.push(("track-invalid-refused".into(), "track/invalid-write-accepted".into())); } }
                    Err(e) => { ans.push(format!("err:{}", nib_err(&e))); if valid && trusted { fails.push(("track-write".into(), format!("track/valid-write-refused/{}", nib_err(&e)))); } }
                }
            } else if r < 88 {
                ops.push(format!("r:{}:{}", track, sector));
                desc += &format!("R{}/{} ", track, sector);
                match obj.read_sector(&bits, track, sector) {
                    Ok(v) => { ans.push(format!("ok:{}", hx(&v))); if trusted { if !valid { fails.push(("track-invalid-refused".into(), "track/invalid-read-accepted".into())); } else if v != expect[sector as usize] { fails.push(("track-readback".into(), "track/read-mismatch".into())); } } }
                    Err(e) => { ans.push(format!("err:{}", nib_err(&e))); if valid && trusted { fails.push(("track-read".into(), format!("track/valid-read-refused/{}", nib_err(&e)))); } }
                }
            } else {
                let pnew = if rng.chance(60) { aligned[rng.below(aligned.len())] } else { trusted = trusted && sync_bits > 8; rng.below(n) };
                ops.push(format!("p:{}", pnew));
                desc += &format!("P{} ", pnew);
                obj.set_bit_ptr(pnew);
                ans.push("ok".into());
            }
            aligned.push(obj.get_bit_ptr());
        }
        // final sweep by the oracle (not part of the model request)
        let ptr_end = obj.get_bit_ptr();
        let fin = format!("ptr:{};fnv:{}", ptr_end, fnv(&bits));
        if trusted {
            for s in 0..nsec {
                match obj.read_sector(&bits, tc.track, s as u8) {
                    Ok(v) => if v != expect[s] { fails.push(("track-final-sweep".into(), "track/read-mismatch".into())); },
                    Err(e) => fails.push(("track-final-sweep".into(), format!("track/valid-read-refused/{}", nib_err(&e)))),
                }
            }
        }
        let req = format!("c08 trk {} {} {} {} {} {}", if six_two { 1 } else { 0 }, sync_bits, n, start, hx(&buf0), ops.join(";"));
        ans.push(fin);
        (req, ans.join(";"), fails, desc.clone(), trusted)
    });
    match res {
        Ok((req, ans, fails, d, trusted)) => {
            ctx.out.q(&req, &ans);
            if fails.is_empty() { ctx.out.oracle(true, "track-seq", "-", &d); }
            let mut fails = fails; fails.sort(); fails.dedup();
            for (o, s) in &fails { ctx.out.oracle(false, o, s, &d); }
            ctx.out.sample(&d);
            ctx.out.count(if trusted { "trackseq:aligned" } else { "trackseq:unaligned-start" });
            ctx.out.case(d.as_bytes(), true);
        }
        Err(p) => { ctx.out.oracle(false, "codec-no-panic", &format!("panic:{}", panic_site(&p)), &desc); ctx.out.case(desc.as_bytes(), false); }
    }
}

/// 4&4: `encode_44` is private; it is observable in the address field of a formatted track
/// (volume, track, sector, checksum), `decode_44` is public.
fn addr44_case(ctx: &mut Ctx, idx: usize, rng: &mut Rng) {
    let v = (idx % 256) as u8;
    let track = rng.byte();
    let six_two = rng.chance(50);
    let desc = format!("idx={} addr44 vol={} track={} six_two={}", idx, v, track, six_two);
    let res = guarded(|| {
        let tc = TrackCase { six_two, sync_bits: 8, vol: v, track };
        let (bits, _obj) = make_track(&tc);
        addr_field(&bits, if six_two { 0x96 } else { 0xb5 })
    });
    match res {
        Ok(Some(f)) => {
            ctx.out.q(&format!("c08 enc44 {}", hx(&[v])), &hx(&f[0..2]));
            ctx.out.q(&format!("c08 enc44 {}", hx(&[track])), &hx(&f[2..4]));
            ctx.out.q(&format!("c08 enc44 {}", hx(&[v ^ track ^ 0])), &hx(&f[6..8])); // first sector is 0
            let back = disk525::decode_44([f[0], f[1]]);
            ctx.out.oracle(back == v, "codec44-roundtrip", "codec/44/roundtrip", &desc);
            let a = rng.byte(); let b = rng.byte();
            ctx.out.q(&format!("c08 dec44 {}", hx(&[a, b])), &hx(&[disk525::decode_44([a, b])]));
        }
        Ok(None) => ctx.out.oracle(false, "codec44-field-present", "codec/44/address-field-not-found", &desc),
        Err(p) => ctx.out.oracle(false, "codec-no-panic", &format!("panic:{}", panic_site(&p)), &desc),
    }
    ctx.out.count("codec:44");
    ctx.out.case(&[4, 4, v, track], true);
}

pub fn run(ctx: &mut Ctx) {
    let mut rng = Rng::new(ctx.seed);
    // Part A: 4&4 (all 256 values), then track codecs; the first 4096 indices walk every byte value
    // at 8 positions for both codecs, the rest is the random mix
    let n44 = 256;
    for idx in 0..n44 {
        let mut r = rng.fork(idx as u64);
        if ctx.out.wants(idx) { addr44_case(ctx, idx, &mut r); }
    }
    let base = 1000;
    let ncodec = ctx.n(1536, 4096 + 8000);
    for k in 0..ncodec {
        // quick tier: spread over the 4096 structured cases with a stride coprime to 4096
        let sub = if ctx.tier_thorough { k } else if k < 1024 { (k * 1365 + (ctx.seed as usize % 4096)) % 4096 } else { 4096 + k };
        let idx = base + sub;
        let mut r = rng.fork(idx as u64);
        if ctx.out.wants(idx) { codec_case(ctx, idx, sub, &mut r); }
    }
    // 3.5 inch codec: the first 3072 sub-indices walk every byte value at 12 positions
    let n35 = ctx.n(400, 3072 + 3000);
    for k in 0..n35 {
        let sub = if ctx.tier_thorough { k } else if k < 256 { (k * 1061 + (ctx.seed as usize % 3072)) % 3072 } else { 3072 + k };
        let idx = 50000 + sub;
        let mut r = rng.fork(idx as u64);
        if ctx.out.wants(idx) { codec35_case(ctx, idx, sub, &mut r); }
    }
    // op sequences on single tracks against Model.Track
    let ntrk = ctx.n(120, 1500);
    for k in 0..ntrk {
        let idx = 70000 + k;
        let mut r = rng.fork(idx as u64);
        if ctx.out.wants(idx) { track_case(ctx, idx, &mut r); }
    }
    // Part B: whole images
    witness_cases(ctx, 90000);
    let nimg = ctx.n(308, 6000);
    for k in 0..nimg {
        let idx = 100000 + k;
        let mut r = rng.fork(idx as u64);
        if !ctx.out.wants(idx) { continue; }
        // every format in turn; the slow bit-level formats less often in the quick tier
        let which = if ctx.tier_thorough { k % 14 } else { [0, 1, 2, 4, 5, 6, 7, 12, 13, 0, 1, 5, 3, 8, 9, 10, 11, 2, 4, 5, 12, 13][k % 22] };
        image_case(ctx, idx, which, &mut r);
    }
    // Part C: loaded IMD / TD0 images with mixed record types (model tie `c08 imdseq|td0seq` + reference oracle)
    let nmix = ctx.n(140, 3000);
    for k in 0..nmix {
        let idx = 200000 + k;
        let mut r = rng.fork(idx as u64);
        if !ctx.out.wants(idx) { continue; }
        let res = guarded(|| if k % 2 == 0 { mix::imd_case(ctx, "c08", idx, &mut r, false) } else { mix::td0_case(ctx, "c08", idx, &mut r, false) });
        if let Err(p) = res { ctx.out.oracle(false, "case-completes", &format!("c08/mixed/case-panic:{}", src_file(&p)), &format!("idx={} panic={}", idx, p)); }
    }
    let _ = SKEW13;
}

// ------------------------------------------------------------------------------------------------
// Part B: whole images
// ------------------------------------------------------------------------------------------------
use a2kit::bios::dpb::DiskParameterBlock;
use a2kit::fs::Block;
use a2kit::img::{names, DiskImage, DiskKind};
use std::collections::BTreeMap;

#[derive(Clone, Debug, PartialEq, Eq, PartialOrd, Ord)]
enum Addr {
    Dos(usize, usize),
    D13(usize, usize),
    Po(usize),
    Cpm(usize, u8, u16),
    Fat(u64, u8),
    Chs(usize, usize, usize),
}

impl Addr {
    fn block(&self) -> Option<Block> {
        match *self {
            Addr::Dos(t, s) => Some(Block::DO([t, s])),
            Addr::D13(t, s) => Some(Block::D13([t, s])),
            Addr::Po(b) => Some(Block::PO(b)),
            Addr::Cpm(b, h, o) => Some(Block::CPM((b, h, o))),
            Addr::Fat(a, n) => Some(Block::FAT((a, n))),
            Addr::Chs(..) => None,
        }
    }
    /// token for the model protocol, `None` if the model has no such op
    fn tok(&self) -> Option<String> {
        match *self {
            Addr::Dos(t, s) => Some(format!("b:dos:{}:{}", t, s)),
            Addr::D13(t, s) => Some(format!("b:d13:{}:{}", t, s)),
            Addr::Po(b) => Some(format!("b:po:{}:0", b)),
            Addr::Fat(a, n) => Some(format!("b:fat:{}:{}", a, n)),
            Addr::Cpm(..) => None,
            Addr::Chs(c, h, s) => Some(format!("s:{}:{}:{}", c, h, s)),
        }
    }
}

#[derive(Clone)]
enum Mode {
    Dos { tracks: usize, sectors: usize },
    D13 { tracks: usize },
    Po { blocks: usize },
    Cpm { bsh: u8, off: u16, blocks: usize },
    Fat { secs: u8, total: u64, sec_size: usize },
    /// list of (cyl, head, sector id, size); `heads`/`cyls` for making invalid addresses
    Chs { list: Vec<(usize, usize, usize, usize)>, cyls: usize, heads: usize },
}

impl Mode {
    fn name(&self) -> &'static str {
        match self { Mode::Dos { .. } => "dos-block", Mode::D13 { .. } => "d13-block", Mode::Po { .. } => "po-block",
            Mode::Cpm { .. } => "cpm-block", Mode::Fat { .. } => "fat-block", Mode::Chs { .. } => "sector" }
    }
    fn count(&self) -> usize {
        match self { Mode::Dos { tracks, sectors } => tracks * sectors, Mode::D13 { tracks } => tracks * 13, Mode::Po { blocks } => *blocks,
            Mode::Cpm { blocks, .. } => *blocks, Mode::Fat { secs, total, .. } => (*total / *secs as u64) as usize, Mode::Chs { list, .. } => list.len() }
    }
    /// the k-th valid address and its unit size
    fn valid(&self, k: usize) -> (Addr, usize) {
        match self {
            Mode::Dos { sectors, .. } => (Addr::Dos(k / sectors, k % sectors), 256),
            Mode::D13 { .. } => (Addr::D13(k / 13, k % 13), 256),
            Mode::Po { .. } => (Addr::Po(k), 512),
            Mode::Cpm { bsh, off, .. } => (Addr::Cpm(k, *bsh, *off), 128usize << *bsh),
            Mode::Fat { secs, sec_size, .. } => (Addr::Fat(k as u64 * *secs as u64, *secs), *secs as usize * sec_size),
            Mode::Chs { list, .. } => { let (c, h, s, z) = list[k]; (Addr::Chs(c, h, s), z) }
        }
    }
    fn invalid(&self, rng: &mut Rng) -> Addr {
        let big = |rng: &mut Rng, lim: usize| -> usize { match rng.below(6) { 0 => lim, 1 => lim + 1 + rng.below(3), 2 => 255, 3 => 256 + rng.below(lim.max(1)), 4 => 65536 + rng.below(lim.max(1)), _ => 1usize << (20 + rng.below(12)) } };
        match self {
            Mode::Dos { tracks, sectors } => if rng.chance(50) { Addr::Dos(big(rng, *tracks).max(*tracks), rng.below(*sectors)) } else { Addr::Dos(rng.below(*tracks), big(rng, *sectors).max(*sectors)) },
            Mode::D13 { tracks } => if rng.chance(50) { Addr::D13(big(rng, *tracks).max(*tracks), rng.below(13)) } else { Addr::D13(rng.below(*tracks), big(rng, 13).max(13)) },
            Mode::Po { blocks } => Addr::Po(big(rng, *blocks).max(*blocks)),
            Mode::Cpm { bsh, off, blocks } => Addr::Cpm(big(rng, *blocks).max(*blocks), *bsh, *off),
            Mode::Fat { secs, total, .. } => {
                let first = match rng.below(3) { 0 => *total - (*secs as u64 - 1).min(*total), 1 => *total, _ => *total + big(rng, 100) as u64 };
                Addr::Fat(first.max(*total + 1 - *secs as u64), *secs)
            }
            Mode::Chs { list, cyls, heads } => {
                let (c, h, s, _) = list[rng.below(list.len())];
                let maxs = list.iter().filter(|x| x.0 == c && x.1 == h).map(|x| x.2).max().unwrap_or(0);
                let mins = list.iter().filter(|x| x.0 == c && x.1 == h).map(|x| x.2).min().unwrap_or(0);
                match rng.below(4) {
                    0 => Addr::Chs(big(rng, *cyls).max(*cyls), h, s),
                    1 => Addr::Chs(c, big(rng, *heads).max(*heads), s),
                    2 => Addr::Chs(c, h, maxs + 1 + match rng.below(4) { 0 => 0, 1 => rng.below(4), 2 => 255 - maxs.min(255), _ => 65535 }),
                    _ => if mins > 0 { Addr::Chs(c, h, mins - 1) } else { Addr::Chs(c, h, 256 + s) },
                }
            }
        }
    }
}

struct Spec {
    fmt: &'static str,
    label: String,
    /// model request prefix (`c08 seq …`) for the flat formats
    model: Option<String>,
    modes: Vec<Mode>,
    slow: bool,
    /// offset and length of the raw image data inside `to_bytes()` (flat formats)
    raw: Option<(usize, usize)>,
}

fn chs_grid(cyls: usize, heads: usize, first: usize, secs: usize, size: usize) -> Mode {
    let mut list = Vec::new();
    for c in 0..cyls { for h in 0..heads { for s in first..first + secs { list.push((c, h, s, size)); } } }
    Mode::Chs { list, cyls, heads }
}

fn geometry_mode(img: &mut Box<dyn DiskImage>) -> Option<Mode> {
    let js = img.export_geometry(None).ok()?;
    let v = json::parse(&js).ok()?;
    let mut list = Vec::new();
    let (mut cyls, mut heads) = (0, 0);
    for t in v["tracks"].members() {
        for m in t["chs_map"].members() {
            let c = m[0].as_usize()?; let h = m[1].as_usize()?; let s = m[2].as_usize()?; let z = m[3].as_usize()?;
            list.push((c, h, s, z));
            cyls = cyls.max(c + 1); heads = heads.max(h + 1);
        }
    }
    if list.is_empty() { None } else { Some(Mode::Chs { list, cyls, heads }) }
}

/// (cyls, heads, sectors, sector size) from the Display form of a disk kind, e.g. `5.25 inch 40/1/8/512`
fn layout_of(kind: &DiskKind) -> Option<(usize, usize, usize, usize)> {
    let s = kind.to_string();
    let last = s.split(' ').last()?;
    let p: Vec<usize> = last.split('/').filter_map(|x| x.parse().ok()).collect();
    if p.len() == 4 { Some((p[0], p[1], p[2], p[3])) } else { None }
}

const IBM_KINDS: [(&str, DiskKind); 10] = [
    ("ssdd8", DiskKind::D525(names::IBM_SSDD_8)), ("ssdd9", DiskKind::D525(names::IBM_SSDD_9)),
    ("dsdd8", DiskKind::D525(names::IBM_DSDD_8)), ("dsdd9", DiskKind::D525(names::IBM_DSDD_9)),
    ("ssqd", DiskKind::D525(names::IBM_SSQD)), ("dsqd", DiskKind::D525(names::IBM_DSQD)), ("dshd", DiskKind::D525(names::IBM_DSHD)),
    ("720", DiskKind::D35(names::IBM_720)), ("1440", DiskKind::D35(names::IBM_1440)), ("2880", DiskKind::D35(names::IBM_2880))];
const CPM_KINDS: [(&str, DiskKind); 8] = [
    ("cpm1", names::IBM_CPM1_KIND), ("osb-sd", names::OSBORNE1_SD_KIND), ("osb-dd", names::OSBORNE1_DD_KIND), ("kayii", names::KAYPROII_KIND),
    ("kay4", names::KAYPRO4_KIND), ("trs80", names::TRS80_M2_CPM_KIND), ("nabu", names::NABU_CPM_KIND), ("amstrad", names::AMSTRAD_SS_KIND)];

fn a2_525_modes(dos33: bool) -> Vec<Mode> {
    if dos33 {
        vec![Mode::Dos { tracks: 35, sectors: 16 }, Mode::Po { blocks: 280 }, Mode::Cpm { bsh: 3, off: 3, blocks: 128 }, chs_grid(35, 1, 0, 16, 256)]
    } else {
        vec![Mode::D13 { tracks: 35 }, chs_grid(35, 1, 0, 13, 256)]
    }
}

fn d35_sector_mode(sides: usize) -> Mode {
    let mut list = Vec::new();
    for c in 0..80 { for h in 0..sides { for s in 0..[12usize, 11, 10, 9, 8][c / 16] { list.push((c, h, s, 512)); } } }
    Mode::Chs { list, cyls: 80, heads: sides }
}

/// Build the image and its description.  `which` enumerates every (format, kind) pair `mkimage` allows,
/// plus small DO/PO/D13 images (public constructors) that keep the model runs cheap.
fn make_image(which: usize, rng: &mut Rng, thorough: bool) -> (Box<dyn DiskImage>, Spec) {
    // quick tier: the 1600-block images (800 KB lists cost a second per request in the driver) go to the direct oracle only
    let po_model_limit = if thorough { 2000 } else { 1000 };
    let vol = 1 + rng.below(254) as u8;
    match which {
        0 => { let t = 2 + rng.below(4); (Box::new(a2kit::img::dsk_do::DO::create(t as u16, 16)),
            Spec { fmt: "do", label: format!("do/{}x16", t), model: Some(format!("c08 seq do {} 0", t)), modes: vec![Mode::Dos { tracks: t, sectors: 16 }, chs_grid(t, 1, 0, 16, 256)], slow: false, raw: Some((0, t * 4096)) }) }
        1 => (Box::new(a2kit::img::dsk_do::DO::create(35, 16)),
            Spec { fmt: "do", label: "do/35x16".into(), model: Some("c08 seq do 35 1".into()), modes: a2_525_modes(true), slow: false, raw: Some((0, 143360)) }),
        2 => { let b = *rng.pick(&[8usize, 16, 280]); (Box::new(a2kit::img::dsk_po::PO::create(b as u16)),
            Spec { fmt: "po", label: format!("po/{}", b), model: Some(format!("c08 seq po {}", b)), modes: vec![Mode::Po { blocks: b }], slow: false, raw: Some((0, b * 512)) }) }
        3 => { let b = *rng.pick(&[800usize, 1600, 65535]); (Box::new(a2kit::img::dsk_po::PO::create(b as u16)),
            Spec { fmt: "po", label: format!("po/{}", b), model: if b < po_model_limit { Some(format!("c08 seq po {}", b)) } else { None }, modes: vec![Mode::Po { blocks: b }], slow: false, raw: Some((0, b * 512)) }) }
        4 => { let t = *rng.pick(&[2usize, 3, 35]); (Box::new(a2kit::img::dsk_d13::D13::create(t as u16)),
            Spec { fmt: "d13", label: format!("d13/{}", t), model: Some(format!("c08 seq d13 {}", t)), modes: vec![Mode::D13 { tracks: t }, chs_grid(t, 1, 0, 13, 256)], slow: false, raw: Some((0, t * 13 * 256)) }) }
        5 => {
            let lim = if rng.chance(70) { 4 } else { 10 };
            let (nm, kind) = IBM_KINDS[rng.below(lim)];
            let (c, h, s, z) = layout_of(&kind).expect("layout");
            (Box::new(a2kit::img::dsk_img::Img::create(kind)),
             Spec { fmt: "img", label: format!("img/{}", nm), model: if c * h * s * z <= 400000 { Some(format!("c08 seq img {} {} {} {}", z, c, h, s)) } else { None },
                    modes: vec![chs_grid(c, h, 1, s, z), Mode::Fat { secs: 1, total: (c * h * s) as u64, sec_size: z }, Mode::Fat { secs: 2, total: (c * h * s) as u64, sec_size: z }], slow: false, raw: Some((0, c * h * s * z)) })
        }
        6 => {
            let wrap = if rng.chance(50) { "do" } else { "nib" }.to_string();
            let img = a2kit::img::dot2mg::Dot2mg::create(vol, names::A2_DOS33_KIND, if wrap == "do" && rng.chance(50) { None } else { Some(&wrap) }).expect("2mg");
            let flat = wrap == "do";
            (img, Spec { fmt: "2mg", label: format!("2mg/{}", wrap), model: if flat { Some("c08 seq mgdo 35 1 0".into()) } else { None }, modes: a2_525_modes(true), slow: !flat, raw: if flat { Some((64, 143360)) } else { None } })
        }
        7 => {
            let (kind, b) = *rng.pick(&[(names::A2_400_KIND, 800usize), (names::A2_800_KIND, 1600), (names::A2_HD_MAX, 65535)]);
            let wrap = "po".to_string();
            let img = a2kit::img::dot2mg::Dot2mg::create(vol, kind, if rng.chance(50) { None } else { Some(&wrap) }).expect("2mg");
            (img, Spec { fmt: "2mg", label: format!("2mg/po{}", b), model: if b < po_model_limit { Some(format!("c08 seq mgpo {} 0", b)) } else { None }, modes: vec![Mode::Po { blocks: b }], slow: false, raw: Some((64, b * 512)) })
        }
        8 => { let d33 = rng.chance(60); (Box::new(a2kit::img::nib::Nib::create(vol, if d33 { names::A2_DOS33_KIND } else { names::A2_DOS32_KIND })),
            Spec { fmt: "nib", label: format!("nib/{}", if d33 { "dos33" } else { "dos32" }), model: None, modes: a2_525_modes(d33), slow: true, raw: None }) }
        9 => { let d33 = rng.chance(60); (Box::new(a2kit::img::woz1::Woz1::create(vol, if d33 { names::A2_DOS33_KIND } else { names::A2_DOS32_KIND })),
            Spec { fmt: "woz1", label: format!("woz1/{}", if d33 { "dos33" } else { "dos32" }), model: None, modes: a2_525_modes(d33), slow: true, raw: None }) }
        10 => { let d33 = rng.chance(60); (Box::new(a2kit::img::woz2::Woz2::create(vol, if d33 { names::A2_DOS33_KIND } else { names::A2_DOS32_KIND })),
            Spec { fmt: "woz2", label: format!("woz2/{}", if d33 { "dos33" } else { "dos32" }), model: None, modes: a2_525_modes(d33), slow: true, raw: None }) }
        11 => { let two = rng.chance(50); (Box::new(a2kit::img::woz2::Woz2::create(vol, if two { names::A2_800_KIND } else { names::A2_400_KIND })),
            Spec { fmt: "woz2", label: format!("woz2/{}", if two { "800k" } else { "400k" }), model: None,
                   modes: vec![Mode::Po { blocks: if two { 1600 } else { 800 } }, d35_sector_mode(if two { 2 } else { 1 })], slow: true, raw: None }) }
        12 | 13 => {
            let ibm = rng.chance(40);
            // IBM_2880 (1000 kbps) cannot be created as IMD/TD0 (create panics: a mkdsk matter, property C10)
            let (nm, kind) = if ibm { IBM_KINDS[rng.below(9)] } else { CPM_KINDS[rng.below(8)] };
            let mut img: Box<dyn DiskImage> = if which == 12 { Box::new(a2kit::img::imd::Imd::create(kind)) } else { Box::new(a2kit::img::td0::Td0::create(kind)) };
            let mut modes = Vec::new();
            if kind == names::KAYPRO4_KIND {
                // the geometry reports the head written in the address fields (0 on both sides);
                // read_sector takes the physical head: side 0 has ids 0-9, side 1 ids 10-19
                let mut list = Vec::new();
                for c in 0..40 { for h in 0..2 { for s in 0..10 { list.push((c, h, 10 * h + s, 512)); } } }
                modes.push(Mode::Chs { list, cyls: 40, heads: 2 });
            } else if let Some(m) = geometry_mode(&mut img) { modes.push(m); }
            if ibm {
                if let Some((c, h, s, z)) = layout_of(&kind) { modes.push(Mode::Fat { secs: 1 + rng.below(2) as u8, total: (c * h * s) as u64, sec_size: z }); }
            } else {
                let dpb = DiskParameterBlock::create(&kind);
                modes.push(Mode::Cpm { bsh: dpb.bsh, off: dpb.off, blocks: dpb.dsm as usize + 1 });
            }
            let fmt = if which == 12 { "imd" } else { "td0" };
            (img, Spec { fmt, label: format!("{}/{}", fmt, nm), model: None, modes, slow: false, raw: None })
        }
        _ => unreachable!(),
    }
}

fn src_file(p: &str) -> String {
    // "…/src/img/dsk_do.rs:67 [msg]" -> "src/img/dsk_do.rs"
    let s = p.split(" [").next().unwrap_or(p);
    let s = match s.find("src/") { Some(k) => &s[k..], None => s };
    s.split(':').next().unwrap_or(s).to_string()
}

#[derive(PartialEq)]
enum Out3 { Ok(Vec<u8>), Err, Panic(String) }

fn do_read(img: &mut Box<dyn DiskImage>, a: &Addr) -> Out3 {
    let r = guarded(|| match a.block() {
        Some(b) => img.read_block(b).map_err(|_| ()),
        None => if let Addr::Chs(c, h, s) = *a { img.read_sector(c, h, s).map_err(|_| ()) } else { Err(()) },
    });
    match r { Ok(Ok(v)) => Out3::Ok(v), Ok(Err(())) => Out3::Err, Err(p) => Out3::Panic(p) }
}

fn do_write(img: &mut Box<dyn DiskImage>, a: &Addr, d: &[u8]) -> Out3 {
    let r = guarded(|| match a.block() {
        Some(b) => img.write_block(b, d).map_err(|_| ()),
        None => if let Addr::Chs(c, h, s) = *a { img.write_sector(c, h, s, d).map_err(|_| ()) } else { Err(()) },
    });
    match r { Ok(Ok(())) => Out3::Ok(vec![]), Ok(Err(())) => Out3::Err, Err(p) => Out3::Panic(p) }
}

fn pad(d: &[u8], n: usize) -> Vec<u8> { let mut v = d.to_vec(); v.resize(n, 0); v.truncate(n); v }

fn image_case(ctx: &mut Ctx, idx: usize, which: usize, rng: &mut Rng) {
    let thorough = ctx.tier_thorough;
    let built = guarded(|| make_image(which, rng, thorough));
    let (mut img, spec) = match built {
        Ok(x) => x,
        Err(p) => { ctx.out.oracle(false, "image-create", &format!("create-panic:{}", src_file(&p)), &format!("idx={} which={} {}", idx, which, p)); ctx.out.case(&[which as u8], false); return; }
    };
    if spec.modes.is_empty() { ctx.out.oracle(false, "image-geometry", &format!("{}/no-addressing-mode", spec.fmt), &format!("idx={} {}", idx, spec.label)); return; }
    let mode = spec.modes[rng.below(spec.modes.len())].clone();
    let nvalid = mode.count();
    let nops = if spec.slow { 6 + rng.below(8) } else { 12 + rng.below(28) };
    let mut desc = format!("idx={} img={} mode={} ops=", idx, spec.label, mode.name());
    let mut canon: Vec<u8> = spec.label.as_bytes().to_vec();
    canon.extend_from_slice(mode.name().as_bytes());
    let mut map: BTreeMap<Addr, Vec<u8>> = BTreeMap::new();
    let mut units: BTreeMap<Addr, usize> = BTreeMap::new();
    let mut hot: Vec<usize> = Vec::new(); // indices of addresses in play, so that reads hit written and neighbouring units
    let mut fails: Vec<(String, String)> = Vec::new();
    let mut mops: Vec<String> = Vec::new();   // model ops
    let mut mans: Vec<String> = Vec::new();   // implementation answers in the model's format
    let mut modelled = spec.model.is_some();
    let mut wrote = false; let mut read_other = false;
    let sig = |what: &str| format!("{}/{}/{}", spec.fmt, mode.name(), what);
    let mut stop = false;
    for opn in 0..nops {
        if stop { break; }
        let r = rng.below(100);
        let pick_valid = |rng: &mut Rng, hot: &mut Vec<usize>| -> usize {
            let k = if !hot.is_empty() && rng.chance(60) {
                let h = hot[rng.below(hot.len())];
                match rng.below(4) { 0 => h, 1 => (h + 1) % nvalid, 2 => (h + nvalid - 1) % nvalid, _ => h }
            } else if rng.chance(15) { *rng.pick(&[0, nvalid - 1, nvalid / 2]) } else { rng.below(nvalid) };
            if !hot.contains(&k) { hot.push(k); }
            k
        };
        if r < 45 {
            // write to a valid address: short, exact or long data
            let k = pick_valid(rng, &mut hot);
            let (a, unit) = mode.valid(k);
            let len = match rng.below(5) { 0 => rng.below(unit), 1 => unit + 1 + rng.below(300), 2 => 0, _ => unit };
            let dat = if rng.chance(15) { vec![rng.byte(); len] } else if rng.chance(40) { gen_data(rng, len).0 } else { rng.bytes(len) };
            desc += &format!("W{:?}/{} ", a, len);
            canon.push(b'W'); canon.extend_from_slice(format!("{:?}", a).as_bytes()); canon.extend_from_slice(&dat);
            let res = do_write(&mut img, &a, &dat);
            match a.tok() { Some(t) => mops.push(format!("w{}:{}", t, hx(&dat))), None => modelled = false }
            match res {
                Out3::Ok(_) => { map.insert(a.clone(), pad(&dat, unit)); units.insert(a, unit); wrote = true; mans.push("ok".into()); }
                Out3::Err => { fails.push(("valid-write-accepted".into(), sig("valid-write-refused"))); mans.push("err".into()); }
                Out3::Panic(p) => { fails.push(("no-panic".into(), format!("{}:panic:{}", sig("valid-write"), src_file(&p)))); mans.push("panic".into()); stop = true; }
            }
        } else if r < 80 {
            let k = pick_valid(rng, &mut hot);
            let (a, unit) = mode.valid(k);
            desc += &format!("R{:?} ", a);
            canon.push(b'R'); canon.extend_from_slice(format!("{:?}", a).as_bytes());
            let res = do_read(&mut img, &a);
            match a.tok() { Some(t) => mops.push(format!("r{}", t)), None => modelled = false }
            match res {
                Out3::Ok(v) => {
                    let want = map.get(&a).cloned().unwrap_or(vec![0u8; unit]);
                    if map.contains_key(&a) == false && wrote { read_other = true; }
                    if v != want { fails.push(("read-exact".into(), sig(if map.contains_key(&a) { "readback-differs" } else { "unwritten-address-changed" }))); }
                    mans.push(format!("ok:{}", hx(&v)));
                }
                Out3::Err => { fails.push(("valid-read-accepted".into(), sig("valid-read-refused"))); mans.push("err".into()); }
                Out3::Panic(p) => { fails.push(("no-panic".into(), format!("{}:panic:{}", sig("valid-read"), src_file(&p)))); mans.push("panic".into()); stop = true; }
            }
        } else {
            // invalid address: must be refused, nothing may change
            let a = mode.invalid(rng);
            let write = r >= 90;
            let dl = 1 + rng.below(300);
            let dat = rng.bytes(dl);
            desc += &format!("{}!{:?} ", if write { "W" } else { "R" }, a);
            canon.push(b'!'); canon.extend_from_slice(format!("{:?}", a).as_bytes());
            let before = if spec.raw.is_some() && write { Some(img.to_bytes()) } else { None };
            let res = if write { do_write(&mut img, &a, &dat) } else { do_read(&mut img, &a) };
            match a.tok() { Some(t) => mops.push(if write { format!("w{}:{}", t, hx(&dat)) } else { format!("r{}", t) }), None => modelled = false }
            match res {
                Out3::Ok(v) => { fails.push(("invalid-refused".into(), sig("invalid-accepted"))); mans.push(if write { "ok".into() } else { format!("ok:{}", hx(&v)) }); if write { stop = true; } }
                Out3::Err => {
                    mans.push("err".into());
                    if let Some(b) = before { if img.to_bytes() != b { fails.push(("refusal-changes-nothing".into(), sig("refused-write-changed-image"))); stop = true; } }
                    else if write {
                        // no flat byte image to compare: the units in play and the last units must read as before
                        let mut probe: Vec<usize> = hot.clone();
                        probe.push(nvalid - 1);
                        if nvalid > 1 { probe.push(nvalid - 2); }
                        for k in probe {
                            let (va, unit) = mode.valid(k);
                            if let Out3::Ok(v) = do_read(&mut img, &va) {
                                if v != map.get(&va).cloned().unwrap_or(vec![0u8; unit]) {
                                    fails.push(("refusal-changes-nothing".into(), sig("refused-write-changed-image"))); stop = true; break;
                                }
                            }
                        }
                    }
                }
                Out3::Panic(_p) => { fails.push(("invalid-refused".into(), sig("invalid-panic"))); mans.push("panic".into()); stop = true; }
            }
        }
        let _ = opn;
    }
    // final sweep: everything written reads back, plus neighbours and some untouched addresses
    if !stop {
        let mut sweep: Vec<usize> = hot.clone();
        for _ in 0..(if spec.slow { 3 } else { 10 }) { sweep.push(rng.below(nvalid)); }
        for k in sweep {
            let (a, unit) = mode.valid(k);
            match do_read(&mut img, &a) {
                Out3::Ok(v) => {
                    let want = map.get(&a).cloned().unwrap_or(vec![0u8; unit]);
                    if !map.contains_key(&a) && wrote { read_other = true; }
                    if v != want { fails.push(("final-sweep".into(), sig(if map.contains_key(&a) { "readback-differs" } else { "unwritten-address-changed" }))); }
                }
                Out3::Err => fails.push(("final-sweep".into(), sig("valid-read-refused"))),
                Out3::Panic(p) => { fails.push(("no-panic".into(), format!("{}:panic:{}", sig("valid-read"), src_file(&p)))); break; }
            }
        }
    }
    // model comparison (flat formats, modelled ops only)
    if modelled {
        if let (Some(prefix), Some((off, len))) = (&spec.model, spec.raw) {
            let req = format!("{} {}", prefix, if mops.is_empty() { "-".to_string() } else { mops.join(";").replace("rb:", "rb:").replace("wb:", "wb:") });
            let mut ans = mans.join(";");
            if mans.last().map(|s| s.as_str()) != Some("panic") {
                let bytes = img.to_bytes();
                if !ans.is_empty() { ans.push(';'); }
                ans += &format!("fin:{}", fnv(&bytes[off..off + len]));
            }
            ctx.out.q(&req, &ans);
            ctx.out.count("model-seq");
        }
    }
    let _ = units;
    if fails.is_empty() { ctx.out.oracle(true, "image-store", "-", &desc); }
    fails.sort(); fails.dedup();
    for (o, s) in &fails { ctx.out.oracle(false, o, s, &desc); }
    ctx.out.sample(&desc);
    ctx.out.count(&format!("img:{}", spec.fmt));
    ctx.out.count(&format!("mode:{}", mode.name()));
    ctx.out.case(&canon, wrote && read_other);
}

/// Fixed witnesses of DESIGN §9 item 21 (and what the model's `wit*` theorems say), replayed on the
/// real code; each has its own index so that a replay file names it.
fn witness_cases(ctx: &mut Ctx, base: usize) {
    let cases: Vec<(usize, &str, Box<dyn Fn() -> Box<dyn DiskImage>>, Addr, &str)> = vec![
        (0, "do/35x16", Box::new(|| Box::new(a2kit::img::dsk_do::DO::create(35, 16))), Addr::Dos(35, 0), "do/dos-block"),
        (1, "do/35x16", Box::new(|| Box::new(a2kit::img::dsk_do::DO::create(35, 16))), Addr::Dos(0, 16), "do/dos-block"),
        (2, "do/35x16", Box::new(|| Box::new(a2kit::img::dsk_do::DO::create(35, 16))), Addr::Po(280), "do/po-block"),
        (3, "po/280", Box::new(|| Box::new(a2kit::img::dsk_po::PO::create(280))), Addr::Po(280), "po/po-block"),
        (4, "d13/35", Box::new(|| Box::new(a2kit::img::dsk_d13::D13::create(35))), Addr::D13(0, 13), "d13/d13-block"),
        (5, "d13/35", Box::new(|| Box::new(a2kit::img::dsk_d13::D13::create(35))), Addr::D13(35, 0), "d13/d13-block"),
        (6, "img/dsdd9", Box::new(|| Box::new(a2kit::img::dsk_img::Img::create(DiskKind::D525(names::IBM_DSDD_9)))), Addr::Chs(0, 2, 1), "img/sector"),
    ];
    for (k, label, mk, a, sg) in cases {
        let idx = base + k;
        if !ctx.out.wants(idx) { continue; }
        let desc = format!("idx={} witness img={} R!{:?}", idx, label, a);
        let mut img = mk();
        match do_read(&mut img, &a) {
            Out3::Err => ctx.out.oracle(true, "invalid-refused", "-", &desc),
            Out3::Ok(_) => ctx.out.oracle(false, "invalid-refused", &format!("{}/invalid-accepted", sg), &desc),
            Out3::Panic(_) => ctx.out.oracle(false, "invalid-refused", &format!("{}/invalid-panic", sg), &desc),
        }
        ctx.out.case(desc.as_bytes(), false);
    }
}

// ------------------------------------------------------------------------------------------------
// Part C (idx 200000..): LOADED IMD / TD0 images with any mix of sector record types.
//
// Images that a2kit creates have only full, readable sector records.  Dumps of real disks do not: IMD has
// "data unavailable" records (type 0, no data follows), compressed records (even types: one fill byte),
// deleted-data / data-error variants; TD0 has skipped / no-data sectors (flags 0x10 / 0x20, no data block),
// duplicated / CRC-error / deleted flags and three data encodings (raw, repeated pattern, run length).
// `mix` builds such images as BYTES from a structured description with an encoder that shares nothing with
// a2kit, keeps a reference of what every address must hold (with the rotating head, so that duplicated ids are
// decided like the real drive decides them), and predicts the bytes a save must produce.
// ------------------------------------------------------------------------------------------------
pub mod mix {
    use crate::util::*;
    use a2kit::img::DiskImage;

    pub fn crc16(buf: &[u8]) -> u16 {
        let mut crc: u16 = 0;
        for b in buf {
            crc ^= (*b as u16) << 8;
            for _ in 0..8 { crc = if crc & 0x8000 != 0 { (crc << 1) ^ 0xa097 } else { crc << 1 }; }
        }
        crc
    }
    fn uniform(b: &[u8]) -> bool { b.iter().all(|x| *x == b[0]) }
    fn pad(d: &[u8], n: usize) -> Vec<u8> { let mut v = d.to_vec(); v.resize(n, 0); v }
    fn src_file(p: &str) -> String {
        let s = p.split(" [").next().unwrap_or(p);
        let s = match s.find("src/") { Some(k) => &s[k..], None => s };
        s.split(':').next().unwrap_or(s).to_string()
    }

    /// sector content: the shared structured generator (uniform, two-periodic `ABAB…`, k-periodic, runs, CR LF only,
    /// uniform but one byte, zeros, random …) plus the fill byte of fresh CP/M / FAT data areas
    fn content(rng: &mut Rng, size: usize) -> Vec<u8> {
        if rng.chance(8) { return vec![0xe5; size]; }
        gen_data(rng, size).0
    }
    /// data handed to write_sector: short, exact, long, empty
    fn write_data(rng: &mut Rng, size: usize) -> Vec<u8> {
        let len = match rng.below(8) { 0 => rng.below(size), 1 => size + 1 + rng.below(40), 2 => 0, 3 => 1 + rng.below(16), _ => size };
        content(rng, len)
    }

    /// ids of the `n` sectors of a track: a rotated / interleaved run, sometimes with a duplicate
    fn sector_ids(rng: &mut Rng, n: usize) -> Vec<u8> {
        if n == 0 { return vec![]; }
        let first = *rng.pick(&[1usize, 1, 1, 0, 10, 65, 247]);
        let mut ids: Vec<u8> = (0..n).map(|i| (first + i) as u8).collect();
        match rng.below(3) { 0 => {}, 1 => ids.rotate_left(rng.below(n)), _ => { for i in (1..n).rev() { let j = rng.below(i + 1); ids.swap(i, j); } } }
        if n > 1 && rng.chance(7) { let a = rng.below(n); let b = (a + 1 + rng.below(n - 1)) % n; ids[b] = ids[a]; }
        ids
    }

    /// the head of a track with `n` records standing on record `pos`: first record with this id that passes
    fn seek(ids: &[u8], pos: &mut usize, id: usize) -> Option<usize> {
        let n = ids.len();
        for k in 1..=n { let j = (*pos + k) % n; if ids[j] as usize == id { *pos = j; return Some(j); } }
        None
    }

    // ------------------------------------------------------------------------ IMD
    #[derive(Clone, Debug)]
    pub struct ImdSec { pub id: u8, pub code: u8, pub data: Vec<u8> }
    #[derive(Clone, Debug)]
    pub struct ImdTrk { pub mode: u8, pub cyl: u8, pub head: u8, pub cmap: bool, pub hmap: bool, pub shift: u8, pub secs: Vec<ImdSec>, pub pos: usize }
    #[derive(Clone, Debug)]
    pub struct ImdDesc { pub header: Vec<u8>, pub comment: Vec<u8>, pub tracks: Vec<ImdTrk> }

    /// the IMD file format as documented by ImageDisk: header line, comment, 0x1A, then per track
    /// mode, cylinder, head (+0x80 cylinder map, +0x40 head map), sector count, size code, maps, records
    pub fn imd_encode(d: &ImdDesc) -> Vec<u8> {
        let mut b = d.header.clone();
        b.extend_from_slice(&d.comment);
        b.push(0x1a);
        for t in &d.tracks {
            b.extend_from_slice(&[t.mode, t.cyl, t.head | if t.cmap { 0x80 } else { 0 } | if t.hmap { 0x40 } else { 0 }, t.secs.len() as u8, t.shift]);
            for s in &t.secs { b.push(s.id); }
            if t.cmap { for _ in &t.secs { b.push(t.cyl); } }
            if t.hmap { for _ in &t.secs { b.push(t.head); } }
            for s in &t.secs {
                b.push(s.code);
                match s.code { 0 => {}, 2 | 4 | 6 | 8 => b.push(s.data[0]), _ => b.extend_from_slice(&s.data) }
            }
        }
        b
    }
    /// what a save must look like: every sector with data is stored compressed iff it is uniform, the
    /// deleted / error attribute of the record kept
    pub fn imd_saved(d: &ImdDesc) -> ImdDesc {
        let mut o = d.clone();
        for t in &mut o.tracks { for s in &mut t.secs {
            if s.code != 0 { let base = if s.code % 2 == 0 { s.code - 1 } else { s.code }; s.code = if uniform(&s.data) { base + 1 } else { base }; }
        } }
        o
    }

    pub fn gen_imd(rng: &mut Rng) -> ImdDesc {
        let header = format!("IMD 1.1{}: {:02}/{:02}/{:04} {:02}:{:02}:{:02}", rng.below(10), 1 + rng.below(28), 1 + rng.below(12), 1980 + rng.below(40), rng.below(24), rng.below(60), rng.below(60)).into_bytes();
        assert_eq!(header.len(), 29);
        // the header note of a foreign file: ASCII, multi-byte UTF-8, NUL / CR / LF inside, and (rarely) code-page bytes
        // that are not UTF-8 — such a file is refused as a whole (`String::from_utf8`)
        let words: [&[u8]; 11] = [b"dump of a damaged disk", b"side A", b"retry count 5", b"", b"CP/M 2.2 system", b"line one\r\nline two", b"x",
            "Gr\u{fc}\u{df}e \u{2014} \u{65e5}\u{672c}\u{8a9e}".as_bytes(), b"nul\0inside\rlone cr\nlone lf", b"Gr\x81\xe1e (CP437)", b"truncated \xe6\x97"];
        let comment = rng.pick(&words[..]).to_vec();
        let ntr = 1 + rng.below(4);
        let mut tracks: Vec<ImdTrk> = Vec::new();
        for k in 0..ntr {
            let (cyl, head) = if k > 0 && rng.chance(10) { (tracks[k - 1].cyl, tracks[k - 1].head) } else { ((k / 2) as u8 + if rng.chance(10) { 5 } else { 0 }, (k % 2) as u8) };
            let shift = *rng.pick(&[0u8, 0, 1, 1, 2, 2, 3]);
            let size = 128usize << shift;
            let n = if rng.chance(4) { 0 } else { 1 + rng.below(9) };
            let ids = sector_ids(rng, n);
            // the mix: "plain" tracks exist too, most tracks have unavailable and compressed records in front of others
            let plain = rng.chance(15);
            let secs = ids.iter().map(|id| {
                let code = if plain { 1 } else { *rng.pick(&[0u8, 0, 0, 1, 1, 1, 1, 2, 2, 2, 3, 4, 5, 6, 7, 8]) };
                let data = match code { 0 => vec![], 2 | 4 | 6 | 8 => vec![rng.byte(); size], _ => content(rng, size) };
                ImdSec { id: *id, code, data }
            }).collect();
            tracks.push(ImdTrk { mode: rng.below(6) as u8, cyl, head, cmap: rng.chance(10), hmap: rng.chance(15), shift, secs, pos: 0 });
        }
        ImdDesc { header, comment, tracks }
    }

    fn leaf(meta: &str, path: &[&str]) -> Option<String> {
        let j = json::parse(meta).ok()?;
        let mut cur = &j;
        for k in path { if !cur.has_key(k) { return None; } cur = &cur[*k]; }
        cur.as_str().map(|s| s.to_string())
    }

    struct Seq { ops: Vec<String>, ans: Vec<String>, fails: Vec<(String, String, String)>, stop: bool }
    impl Seq {
        fn fail(&mut self, oracle: &str, sig: String, what: String) { self.fails.push((oracle.to_string(), sig, what)); }
    }

    fn note_texts(rng: &mut Rng, imd: bool) -> String {
        let base = ["", "x", "backup of the accounting diskette", "made from drive B:\nverified twice", "three\nlines\nhere", "crlf line\r\nnext", "ünïcödé 日本語",
                    "a much longer text that certainly does not have the length of the comment the image was loaded with, repeated: "];
        let mut s = rng.pick(&base[..]).to_string();
        if rng.chance(20) { let k = 1 + rng.below(6); s = s.repeat(k); }
        if rng.chance(6) { s.push(if imd { '\u{1a}' } else { '\u{0}' }); s.push_str("tail"); }
        s
    }

    /// one op sequence on a loaded IMD image; `fam` = `c08` (sector storage) or `c09` (with metadata edits, saves, reloads)
    pub fn imd_case(ctx: &mut Ctx, fam: &str, idx: usize, rng: &mut Rng, with_meta: bool) {
        let mut d = gen_imd(rng);
        let file = imd_encode(&d);
        let sigp = format!("{}/imd/mixed-records", fam);
        let mut desc = format!("idx={} imd-mixed tracks=[{}] file={} ops=", idx,
            d.tracks.iter().map(|t| format!("c{}h{}z{}:{}", t.cyl, t.head, 128 << t.shift, t.secs.iter().map(|s| format!("{}/{}", s.id, s.code)).collect::<Vec<_>>().join(","))).collect::<Vec<_>>().join(" "), hx(&file));
        let valid = std::str::from_utf8(&d.comment).is_ok();
        let prefix = format!("{} imdseqx {} {}", fam, hx(&file), valid as u8);
        let mut img: Box<dyn DiskImage> = match guarded(|| a2kit::img::imd::Imd::from_bytes(&file)) {
            Ok(Ok(i)) => Box::new(i),
            Ok(Err(_)) if !valid => { ctx.out.q(&format!("{} -", prefix), "load:err"); ctx.out.count("mixed:imd:non-utf8-note-refused"); ctx.out.case(&file, false); return; }
            Ok(Err(e)) => { ctx.out.q(&format!("{} imdseq {} -", fam, hx(&file)), "load:err"); ctx.out.oracle(false, "mixed-image-loads", &format!("{}/load-refused", sigp), &format!("{} err={}", desc, e)); ctx.out.case(&file, false); return; }
            Err(p) => { ctx.out.q(&format!("{} imdseq {} -", fam, hx(&file)), "load:panic"); ctx.out.oracle(false, "mixed-image-loads", &format!("{}/load-panic:{}", sigp, src_file(&p)), &format!("{} panic={}", desc, p)); ctx.out.case(&file, false); return; }
        };
        // after loading, compressed records are ordinary records: the reference keeps the decoded content
        let mut q = Seq { ops: vec![], ans: vec!["load:ok".into()], fails: vec![], stop: false };
        let mut last_w: Option<(usize, usize)> = None;
        let nops = 10 + rng.below(22);
        let ntr = d.tracks.len();
        let mut wrote = false; let mut read_after = false;
        let mut plan: Vec<usize> = (0..nops).map(|_| rng.below(100)).collect();
        // final sweep: every record of every track once more (through the model as well)
        plan.push(1000);
        for r in plan {
            if q.stop { break; }
            if r == 1000 {
                for ti in 0..ntr { for si in 0..d.tracks[ti].secs.len() { if !q.stop { let id = d.tracks[ti].secs[si].id as usize; imd_read(&mut img, &mut d, &mut q, ti, id, &sigp, last_w, &mut desc); } } }
                continue;
            }
            let ti = rng.below(ntr);
            let (cyl, head) = (d.tracks[ti].cyl as usize, d.tracks[ti].head as usize);
            // the first track with this cylinder and head is the one that is addressed
            let ti = d.tracks.iter().position(|t| t.cyl as usize == cyl && t.head as usize == head).unwrap();
            let n = d.tracks[ti].secs.len();
            let size = 128usize << d.tracks[ti].shift;
            if r < 38 && n > 0 {
                let si = rng.below(n);
                let id = d.tracks[ti].secs[si].id as usize;
                let dat = write_data(rng, size);
                desc += &format!("W{}/{}/{}:{} ", cyl, head, id, dat.len());
                q.ops.push(format!("ws:{}:{}:{}:{}", cyl, head, id, hx(&dat)));
                let res = guarded(|| img.write_sector(cyl, head, id, &dat).map_err(|e| e.to_string()));
                let t = &mut d.tracks[ti];
                let ids: Vec<u8> = t.secs.iter().map(|s| s.id).collect();
                let hit = seek(&ids, &mut t.pos, id).unwrap();
                match res {
                    Ok(Ok(())) => {
                        q.ans.push("ok".into());
                        if t.secs[hit].code == 0 { q.fail("unavailable-refused", format!("{}/unavailable-write-accepted", sigp), format!("write to c{} h{} id {} (record {}: data unavailable) accepted", cyl, head, id, hit)); }
                        else { t.secs[hit].data = pad(&dat[..dat.len().min(size)], size); last_w = Some((ti, hit)); wrote = true; }
                    }
                    Ok(Err(_)) => {
                        q.ans.push("err".into());
                        if t.secs[hit].code != 0 { q.fail("valid-write-accepted", format!("{}/valid-write-refused", sigp), format!("write to c{} h{} id {} (record {} type {}) refused", cyl, head, id, hit, t.secs[hit].code)); }
                    }
                    Err(p) => { q.ans.push("panic".into()); q.stop = true; q.fail("no-panic", format!("{}/write-panic:{}", sigp, src_file(&p)), format!("write c{} h{} id {} panic={}", cyl, head, id, p)); }
                }
                // look at one or two neighbours right away (frame)
                for _ in 0..rng.below(3) { if !q.stop { let sj = rng.below(n); let idj = d.tracks[ti].secs[sj].id as usize; if imd_read(&mut img, &mut d, &mut q, ti, idj, &sigp, last_w, &mut desc) && wrote { read_after = true; } } }
            } else if r < 72 && n > 0 {
                let si = rng.below(n);
                let id = d.tracks[ti].secs[si].id as usize;
                if imd_read(&mut img, &mut d, &mut q, ti, id, &sigp, last_w, &mut desc) && wrote { read_after = true; }
            } else if r < 84 {
                // an address that does not exist: no such cylinder / head / sector id; write or read
                let ids: Vec<usize> = d.tracks[ti].secs.iter().map(|s| s.id as usize).collect();
                let bad = |rng: &mut Rng| -> usize { loop { let c = match rng.below(4) { 0 => 256 + rng.below(300), 1 => rng.below(256), 2 => ids.iter().max().map(|m| m + 1).unwrap_or(1), _ => 65536 + ids.first().cloned().unwrap_or(0) }; if !ids.contains(&c) { return c; } } };
                let (c, h, s) = match rng.below(3) { 0 => (cyl, head, bad(rng)), 1 => (200 + rng.below(100), head, ids.first().cloned().unwrap_or(1)), _ => (cyl, 2 + rng.below(14), ids.first().cloned().unwrap_or(1)) };
                let write = rng.chance(50);
                let dat = write_data(rng, size);
                desc += &format!("{}!{}/{}/{} ", if write { "W" } else { "R" }, c, h, s);
                q.ops.push(if write { format!("ws:{}:{}:{}:{}", c, h, s, hx(&dat)) } else { format!("rs:{}:{}:{}", c, h, s) });
                let res = guarded(|| if write { img.write_sector(c, h, s, &dat).map(|_| vec![]).map_err(|e| e.to_string()) } else { img.read_sector(c, h, s).map_err(|e| e.to_string()) });
                match res {
                    Ok(Ok(v)) => { q.ans.push(if write { "ok".into() } else { format!("ok:{}", hx(&v)) }); q.fail("invalid-refused", format!("{}/invalid-accepted", sigp), format!("c{} h{} id {} does not exist but was {}", c, h, s, if write { "written" } else { "read" })); if write { q.stop = true; } }
                    Ok(Err(_)) => q.ans.push("err".into()),
                    Err(p) => { q.ans.push("panic".into()); q.stop = true; q.fail("invalid-refused", format!("{}/invalid-panic:{}", sigp, src_file(&p)), format!("c{} h{} id {} panic={}", c, h, s, p)); }
                }
                // a failed search leaves the head where it was (a whole revolution)
            } else if r < 92 || (with_meta && r < 96) {
                imd_save(&mut img, &mut d, &mut q, &sigp, &mut desc, false);
            } else if with_meta {
                let v = note_texts(rng, true);
                desc += &format!("CM{:?} ", v);
                q.ops.push(format!("cm:{}", hx(v.as_bytes())));
                let res = guarded(|| img.put_metadata(&vec!["imd".to_string(), "comment".to_string()], &json::JsonValue::String(v.clone())).map_err(|e| e.to_string()));
                match res {
                    Ok(Ok(())) => { q.ans.push("ok".into()); if v.contains('\u{1a}') { q.fail("metadata-put", format!("{}/comment-with-terminator-accepted", sigp), format!("{:?}", v)); } else { d.comment = v.as_bytes().to_vec(); } }
                    Ok(Err(_)) => { q.ans.push("refused".into()); if !v.contains('\u{1a}') { q.fail("metadata-put", format!("{}/comment-refused", sigp), format!("{:?}", v)); } }
                    Err(p) => { q.ans.push("panic".into()); q.stop = true; q.fail("no-panic", format!("{}/put_metadata-panic:{}", sigp, src_file(&p)), p); }
                }
                if !q.stop {
                    q.ops.push("mg".into());
                    let got = leaf(&img.get_metadata(None), &["imd", "comment"]);
                    q.ans.push(match &got { Some(s) => format!("mg:{}", hx(s.as_bytes())), None => "mg:none".into() });
                    if got.as_deref().map(|s| s.as_bytes()) != Some(&d.comment[..]) { q.fail("metadata-put-then-get", format!("{}/comment-put-get-differs", sigp), format!("want {:?} got {:?}", String::from_utf8_lossy(&d.comment), got)); }
                }
            } else {
                imd_save(&mut img, &mut d, &mut q, &sigp, &mut desc, true);
            }
        }
        let nontrivial = wrote && read_after && d.tracks.iter().any(|t| t.secs.iter().any(|s| s.code == 0) || t.secs.iter().any(|s| s.code % 2 == 0));
        finish_seq(ctx, &prefix, q, &desc, nontrivial, "imd");
    }

    /// read one sector through the real code, compare with the reference; returns true if it was a record with data
    fn imd_read(img: &mut Box<dyn DiskImage>, d: &mut ImdDesc, q: &mut Seq, ti: usize, id: usize, sigp: &str, last_w: Option<(usize, usize)>, desc: &mut String) -> bool {
        let (cyl, head) = (d.tracks[ti].cyl as usize, d.tracks[ti].head as usize);
        // a second track with the same cylinder and head is shadowed by the first
        let ti = d.tracks.iter().position(|t| t.cyl as usize == cyl && t.head as usize == head).unwrap();
        *desc += &format!("R{}/{}/{} ", cyl, head, id);
        q.ops.push(format!("rs:{}:{}:{}", cyl, head, id));
        let res = guarded(|| img.read_sector(cyl, head, id).map_err(|e| e.to_string()));
        let t = &mut d.tracks[ti];
        let ids: Vec<u8> = t.secs.iter().map(|s| s.id).collect();
        let hit = match seek(&ids, &mut t.pos, id) { Some(h) => h, None => {
            // the id only exists on the shadowed track: an invalid address
            match res { Ok(Ok(v)) => { q.ans.push(format!("ok:{}", hx(&v))); q.fail("invalid-refused", format!("{}/invalid-accepted", sigp), format!("c{} h{} id {} is not on the first track with that cylinder and head", cyl, head, id)); }
                        Ok(Err(_)) => q.ans.push("err".into()),
                        Err(p) => { q.ans.push("panic".into()); q.stop = true; q.fail("invalid-refused", format!("{}/invalid-panic:{}", sigp, src_file(&p)), p); } }
            return false; } };
        let s = &t.secs[hit];
        match res {
            Ok(Ok(v)) => {
                q.ans.push(format!("ok:{}", hx(&v)));
                if s.code == 0 { q.fail("unavailable-refused", format!("{}/unavailable-read-accepted", sigp), format!("c{} h{} id {} (record {}) has no data but a read returned {} bytes", cyl, head, id, hit, v.len())); }
                else if v != s.data {
                    let what = if last_w == Some((ti, hit)) { "readback-differs" } else { "frame" };
                    let at = v.iter().zip(s.data.iter()).position(|(a, b)| a != b);
                    q.fail(if what == "frame" { "other-sectors-unchanged" } else { "read-after-write" }, format!("{}/{}", sigp, what), format!("c{} h{} id {} (record {} of {}): {} bytes, first difference at {:?}, last write went to {:?}", cyl, head, id, hit, ids.len(), v.len(), at, last_w));
                }
                s.code != 0
            }
            Ok(Err(_)) => {
                q.ans.push("err".into());
                if s.code != 0 { q.fail("valid-read-accepted", format!("{}/valid-read-refused", sigp), format!("c{} h{} id {} (record {} type {}) refused", cyl, head, id, hit, s.code)); }
                false
            }
            Err(p) => { q.ans.push("panic".into()); q.stop = true; q.fail("no-panic", format!("{}/read-panic:{}", sigp, src_file(&p)), format!("read c{} h{} id {} (record {}) panic={}", cyl, head, id, hit, p)); false }
        }
    }

    fn imd_save(img: &mut Box<dyn DiskImage>, d: &mut ImdDesc, q: &mut Seq, sigp: &str, desc: &mut String, reload: bool) {
        *desc += if reload { "LD " } else { "SV " };
        let want = imd_encode(&imd_saved(d));
        match guarded(|| img.to_bytes()) {
            Ok(b) => {
                if !reload { q.ops.push("sv".into()); q.ans.push(format!("sv:{}:{}", b.len(), fnv(&b))); }
                if b != want { q.fail("saved-bytes", format!("{}/save-differs", sigp), format!("to_bytes gives {} bytes, the records of the reference encode to {} bytes, first difference at {:?}", b.len(), want.len(), b.iter().zip(want.iter()).position(|(a, b)| a != b))); }
                if reload {
                    q.ops.push("ld".into());
                    match guarded(|| a2kit::img::imd::Imd::from_bytes(&b)) {
                        Ok(Ok(i)) => { *img = Box::new(i); q.ans.push("ok".into()); for t in &mut d.tracks { t.pos = 0; } }
                        Ok(Err(e)) => { q.ans.push("err".into()); q.fail("saved-image-reloads", format!("{}/reload-refused", sigp), e.to_string()); }
                        Err(p) => { q.ans.push("panic".into()); q.stop = true; q.fail("saved-image-reloads", format!("{}/reload-panic:{}", sigp, src_file(&p)), p); }
                    }
                }
            }
            Err(p) => { q.ops.push(if reload { "ld" } else { "sv" }.into()); q.ans.push("panic".into()); q.stop = true; q.fail("no-panic", format!("{}/to_bytes-panic:{}", sigp, src_file(&p)), p); }
        }
    }

    fn finish_seq(ctx: &mut Ctx, prefix: &str, q: Seq, desc: &str, nontrivial: bool, typ: &str) {
        ctx.out.q(&format!("{} {}", prefix, if q.ops.is_empty() { "-".to_string() } else { q.ops.join(";") }), &q.ans.join(";"));
        if q.fails.is_empty() { ctx.out.oracle(true, "mixed-image-store", "-", &format!("idx={}", desc.split(' ').next().unwrap_or("").trim_start_matches("idx="))); }
        let mut seen = std::collections::BTreeSet::new();
        for (o, s, w) in &q.fails { if seen.insert((o.clone(), s.clone())) { ctx.out.oracle(false, o, s, &format!("{} :: {}", desc, w)); } }
        ctx.out.sample(&desc.chars().take(500).collect::<String>());
        ctx.out.count(&format!("mixed:{}", typ));
        ctx.out.case(desc.as_bytes(), nontrivial);
    }

    // ------------------------------------------------------------------------ TD0
    #[derive(Clone, Debug)]
    pub struct TdSec { pub hdr: [u8; 5], pub crc: u8, pub rec: Vec<u8>, pub content: Option<Vec<u8>> }
    #[derive(Clone, Debug)]
    pub struct TdTrk { pub cyl: u8, pub head: u8, pub secs: Vec<TdSec>, pub pos: usize }
    #[derive(Clone, Debug)]
    pub struct TdDesc { pub hdr8: Vec<u8>, pub comment: Option<(Vec<u8>, Vec<u8>)>, pub tracks: Vec<TdTrk> }
    impl TdSec { fn id(&self) -> u8 { self.hdr[2] } fn shift(&self) -> u8 { self.hdr[3] } fn flags(&self) -> u8 { self.hdr[4] } fn nodata(&self) -> bool { self.hdr[4] & 0x30 != 0 } }

    /// Teledisk without advanced compression as described in Dunfield's notes: 12-byte header with CRC, optional
    /// comment block (CRC, length, time stamp, text), track headers (count, cylinder, head, CRC byte), sector headers
    /// (cylinder, head, id, size code, flags, CRC byte), data blocks (length word, encoding, payload), 0xFF, trailer
    pub fn td_encode(d: &TdDesc) -> Vec<u8> {
        let mut b = vec![b'T', b'D'];
        let mut h = d.hdr8.clone();
        if d.comment.is_some() { h[5] |= 0x80 } else { h[5] &= 0x7f }
        b.extend_from_slice(&h);
        let c = crc16(&b);
        b.extend_from_slice(&c.to_le_bytes());
        if let Some((stamp, text)) = &d.comment {
            let mut body = (text.len() as u16).to_le_bytes().to_vec();
            body.extend_from_slice(stamp);
            body.extend_from_slice(text);
            b.extend_from_slice(&crc16(&body).to_le_bytes());
            b.extend_from_slice(&body);
        }
        for t in &d.tracks {
            let th = [t.secs.len() as u8, t.cyl, t.head];
            b.extend_from_slice(&th);
            b.push((crc16(&th) & 0xff) as u8);
            for s in &t.secs {
                b.extend_from_slice(&s.hdr);
                b.push(s.crc);
                if !s.nodata() { b.extend_from_slice(&s.rec); }
            }
        }
        b.push(0xff);
        b.extend_from_slice(&[0x27, 0x09, 0xe1, 0xc5, 0x89, 0x05, 0x76]);
        b
    }
    /// what a save must look like: CRC bytes of the sectors that decode are recomputed
    pub fn td_saved(d: &TdDesc) -> TdDesc {
        let mut o = d.clone();
        for t in &mut o.tracks { for s in &mut t.secs { if !s.nodata() { if let Some(c) = &s.content { s.crc = (crc16(c) & 0xff) as u8; } } } }
        o
    }
    /// end of the structured part of a normal-layer stream (behind the 7 trailer bytes), by walking it
    pub fn td_end(x: &[u8]) -> Option<usize> {
        if x.len() < 12 { return None; }
        let mut p = 12;
        if x[7] & 0x80 != 0 { if x.len() < p + 10 { return None; } p += 10 + (x[p + 2] as usize + 256 * x[p + 3] as usize); }
        loop {
            if p >= x.len() { return None; }
            if x[p] == 0xff { return Some((p + 8).min(x.len())); }
            if p + 4 > x.len() { return None; }
            let n = x[p]; p += 4;
            for _ in 0..n {
                if p + 6 > x.len() { return None; }
                let fl = x[p + 4]; p += 6;
                if fl & 0x30 == 0 { if p + 2 > x.len() { return None; } p += 2 + (x[p] as usize + 256 * x[p + 1] as usize); }
            }
        }
    }
    fn td_pack(dat: &[u8]) -> Vec<u8> {
        if uniform(dat) { let mut r = vec![5, 0, 1]; r.extend_from_slice(&((dat.len() / 2) as u16).to_le_bytes()); r.push(dat[0]); r.push(dat[0]); r }
        else { let mut r = ((dat.len() + 1) as u16).to_le_bytes().to_vec(); r.push(0); r.extend_from_slice(dat); r }
    }
    /// a data block of `size` bytes in one of the three encodings, built from its structure; returns (record, content)
    fn td_block(rng: &mut Rng, size: usize) -> (Vec<u8>, Option<Vec<u8>>) {
        let mut body: Vec<u8> = Vec::new();
        let mut out: Vec<u8> = Vec::new();
        let enc = *rng.pick(&[0u8, 0, 1, 1, 1, 2, 2, 3]);
        match enc {
            0 => { out = content(rng, size); body = out.clone(); }
            1 => { let mut left = size / 2; while left > 0 { let c = if rng.chance(55) { left } else { 1 + rng.below(left) }; let (a, b) = if rng.chance(50) { let v = rng.byte(); (v, v) } else { (rng.byte(), rng.byte()) };
                    body.extend_from_slice(&(c as u16).to_le_bytes()); body.push(a); body.push(b); for _ in 0..c { out.push(a); out.push(b); } left -= c; } }
            2 => { while out.len() < size { let left = size - out.len();
                    if rng.chance(45) || left < 2 { let n = 1 + rng.below(left.min(255)); let lit = rng.bytes(n); body.push(0); body.push(n as u8); body.extend_from_slice(&lit); out.extend_from_slice(&lit); }
                    else { let rc = 1 + rng.below(4.min(left / 2)); let rep = 1 + rng.below((left / (2 * rc)).min(255)); let pat = rng.bytes(2 * rc); body.push(rc as u8); body.push(rep as u8); body.extend_from_slice(&pat); for _ in 0..rep { out.extend_from_slice(&pat); } } } }
            _ => { // a block that does not decode to a whole sector: too short, or an unknown encoding
                   let nb = rng.below(9); body = rng.bytes(nb); let mut rec = ((body.len() + 1) as u16).to_le_bytes().to_vec(); rec.push(*rng.pick(&[0u8, 1, 2, 3, 9])); rec.extend_from_slice(&body); return (rec, None); }
        }
        let mut rec = ((body.len() + 1) as u16).to_le_bytes().to_vec();
        rec.push(enc);
        rec.extend_from_slice(&body);
        (rec, Some(out))
    }

    pub fn gen_td0(rng: &mut Rng) -> TdDesc {
        let sides = 1 + rng.below(2) as u8;
        let hdr8 = vec![0, rng.byte(), 0x15, *rng.pick(&[0u8, 1, 2, 0x80]), rng.below(7) as u8, rng.below(3) as u8, rng.below(2) as u8, sides];
        // the comment of a foreign file is ANY byte string: OEM code page bytes that are not UTF-8 (three bytes U+FFFD each in
        // memory), `\r\0` line ends (folded into one line end), CR LF / lone LF / lone CR in the file, trailing NULs, only NULs,
        // multi-byte UTF-8 whole and cut, empty, long, and long enough that the notes in memory exceed the 16-bit length field
        let texts: [&[u8]; 16] = [b"", b"disk 3 of 7", b"line one\0line two", b"dumped with TELEDISK 2.15\0\0", b"x", b"Backup of the accounting diskette\0made from drive B:",
            b"Gr\x81\xe1e aus M\x81nchen\0Diskette 2", b"line one\r\0line two\r\0", b"crlf in the file\r\nnext\nlone lf\rlone cr", b"\0\0\0", b"\x81",
            "\u{65e5}\u{672c}\u{8a9e} \u{fc}".as_bytes(), b"cut \xe6\x97", b"\r\r\0\r\n\0", b"tail\r", b"\xff\xfe\x00\xc0\x80"];
        let mut text = rng.pick(&texts[..]).to_vec();
        match rng.below(20) { 0 => { let n_ = 300 + rng.below(1700); text = rng.bytes(n_); } 1 => { let k = 2 + rng.below(40); text = text.repeat(k); } 2 => { text = vec![0x81; 21000 + rng.below(2000)]; } _ => {} }
        let comment = if rng.chance(70) { Some((vec![80 + rng.below(40) as u8, rng.below(12) as u8, 1 + rng.below(28) as u8, rng.below(24) as u8, rng.below(60) as u8, rng.below(60) as u8], text)) } else { None };
        let ntr = 1 + rng.below(4);
        let mut tracks: Vec<TdTrk> = Vec::new();
        for k in 0..ntr {
            let (cyl, head) = if k > 0 && rng.chance(8) { (tracks[k - 1].cyl, tracks[k - 1].head) } else { ((k / 2) as u8 + if rng.chance(10) { 7 } else { 0 }, (k % 2) as u8) };
            let n = if rng.chance(4) { 0 } else { 1 + rng.below(8) };
            let ids = sector_ids(rng, n);
            let tshift = *rng.pick(&[0u8, 1, 1, 2, 2, 3]);
            let plain = rng.chance(12);
            let secs = ids.iter().map(|id| {
                let shift = if rng.chance(8) { rng.below(4) as u8 } else { tshift };
                let mut flags = if plain { 0 } else { *rng.pick(&[0u8, 0, 0, 0, 0x10, 0x10, 0x20, 0x30, 0x01, 0x02, 0x04, 0x40, 0x14, 0x05]) };
                let (rec, content) = if flags & 0x30 != 0 { (vec![], None) } else { td_block(rng, 128usize << shift) };
                if content.is_none() && flags & 0x30 == 0 && rng.chance(50) { flags |= 0x02; }
                // the CRC byte in the file: right, or (CRC-error dumps) wrong
                let crc = match &content { Some(c) if flags & 0x02 == 0 || rng.chance(50) => (crc16(c) & 0xff) as u8, _ => rng.byte() };
                TdSec { hdr: [if rng.chance(90) { cyl } else { rng.byte() }, if rng.chance(90) { head } else { rng.below(2) as u8 }, *id, shift, flags], crc, rec, content }
            }).collect();
            tracks.push(TdTrk { cyl, head: head | if rng.chance(10) { 0x80 } else { 0 }, secs, pos: 0 });
        }
        TdDesc { hdr8, comment, tracks }
    }

    /// probe of the tree being checked (code as written / as repaired): are notes that the 16-bit length field of the comment
    /// header cannot express refused by `put_metadata` (and cut when a foreign file is loaded)?
    pub fn td0_limits_notes() -> bool {
        use std::sync::OnceLock;
        static P: OnceLock<bool> = OnceLock::new();
        *P.get_or_init(|| {
            let r = guarded(|| {
                let mut t = a2kit::img::td0::Td0::create(a2kit::img::names::OSBORNE1_SD_KIND);
                t.put_metadata(&vec!["td0".to_string(), "comment".to_string(), "notes".to_string()], &json::JsonValue::String("x".repeat(70000))).is_err()
            });
            r.unwrap_or(false)
        })
    }

    fn td_notes_mem(text: &[u8]) -> String { String::from_utf8_lossy(text).replace('\u{0}', "\n") }
    fn td_notes_file(s: &str) -> Vec<u8> { s.replace("\r\n", "\u{0}").replace('\n', "\u{0}").into_bytes() }
    fn normalize(s: &str) -> String { let mut a = s.to_string(); while a.contains("\r\n") { a = a.replace("\r\n", "\n"); } a }

    fn td_read(img: &mut Box<dyn DiskImage>, d: &mut TdDesc, q: &mut Seq, ti: usize, id: usize, sigp: &str, last_w: Option<(usize, usize)>, desc: &mut String) -> bool {
        let (cyl, head) = (d.tracks[ti].cyl as usize, (d.tracks[ti].head & 1) as usize);
        let ti = d.tracks.iter().position(|t| t.cyl as usize == cyl && (t.head & 1) as usize == head).unwrap();
        *desc += &format!("R{}/{}/{} ", cyl, head, id);
        q.ops.push(format!("rs:{}:{}:{}", cyl, head, id));
        let res = guarded(|| img.read_sector(cyl, head, id).map_err(|e| e.to_string()));
        let t = &mut d.tracks[ti];
        let ids: Vec<u8> = t.secs.iter().map(|s| s.id()).collect();
        let hit = match seek(&ids, &mut t.pos, id) { Some(h) => h, None => {
            match res { Ok(Ok(v)) => { q.ans.push(format!("ok:{}", hx(&v))); q.fail("invalid-refused", format!("{}/invalid-accepted", sigp), format!("c{} h{} id {} is not on the first track with that cylinder and head", cyl, head, id)); }
                        Ok(Err(_)) => q.ans.push("err".into()),
                        Err(p) => { q.ans.push("panic".into()); q.stop = true; q.fail("invalid-refused", format!("{}/invalid-panic:{}", sigp, src_file(&p)), p); } }
            return false; } };
        let s = &t.secs[hit];
        let want = if s.nodata() { None } else { s.content.clone() };
        match res {
            Ok(Ok(v)) => {
                q.ans.push(format!("ok:{}", hx(&v)));
                match want {
                    None => q.fail("unavailable-refused", format!("{}/no-data-read-accepted", sigp), format!("c{} h{} id {} (record {}, flags {:02x}) has no decodable data but a read returned {} bytes", cyl, head, id, hit, s.flags(), v.len())),
                    Some(w) => if v != w {
                        let what = if last_w == Some((ti, hit)) { "readback-differs" } else { "frame" };
                        q.fail(if what == "frame" { "other-sectors-unchanged" } else { "read-after-write" }, format!("{}/{}", sigp, what), format!("c{} h{} id {} (record {} of {}): {} bytes, first difference at {:?}, last write went to {:?}", cyl, head, id, hit, ids.len(), v.len(), v.iter().zip(w.iter()).position(|(a, b)| a != b), last_w));
                    }
                }
                true
            }
            Ok(Err(_)) => {
                q.ans.push("err".into());
                if want.is_some() {
                    let what = if last_w == Some((ti, hit)) { "written-sector-unreadable" } else { "valid-read-refused" };
                    q.fail(if last_w == Some((ti, hit)) { "read-after-write" } else { "valid-read-accepted" }, format!("{}/{}", sigp, what), format!("c{} h{} id {} (record {}, flags in the file {:02x}) refused", cyl, head, id, hit, s.flags()));
                }
                false
            }
            Err(p) => { q.ans.push("panic".into()); q.stop = true; q.fail("no-panic", format!("{}/read-panic:{}", sigp, src_file(&p)), format!("read c{} h{} id {} panic={}", cyl, head, id, p)); false }
        }
    }

    fn td_save(img: &mut Box<dyn DiskImage>, d: &mut TdDesc, q: &mut Seq, sigp: &str, desc: &mut String, reload: bool) {
        *desc += if reload { "LD " } else { "SV " };
        let want = td_encode(&td_saved(d));
        match guarded(|| img.to_bytes()) {
            Ok(b) => {
                let x = match retrocompressor::td0::expand_slice(&b) { Ok(x) => x, Err(e) => { q.ops.push("sv".into()); q.ans.push("sv:unexpandable".into()); q.fail("saved-bytes", format!("{}/save-does-not-expand", sigp), e.to_string()); return; } };
                let end = td_end(&x).unwrap_or(x.len());
                if !reload { q.ops.push("sv".into()); q.ans.push(format!("sv:{}:{}", end, fnv(&x[..end]))); }
                if x[..end] != want[..] {
                    let at = x[..end].iter().zip(want.iter()).position(|(a, b)| a != b);
                    let region = match at { Some(p) if p < 12 => "image header", Some(p) if d.comment.is_some() && p < 14 => "comment CRC", Some(p) if d.comment.is_some() && p < 16 => "comment length", Some(p) if d.comment.as_ref().map(|c| p < 22 + c.1.len()).unwrap_or(false) => "comment block", _ => "track data" };
                    q.fail("saved-bytes", format!("{}/save-differs:{}", sigp, region.replace(' ', "-")), format!("expanded to_bytes has {} bytes, the reference encodes to {} bytes, first difference at {:?} ({})", end, want.len(), at, region));
                }
                // the saved image must load again whatever was edited (this is what a user sees of a bad integrity field)
                match guarded(|| a2kit::img::td0::Td0::from_bytes(&b)) {
                    Ok(Ok(i)) => { if reload { q.ops.push("ld".into()); *img = Box::new(i); q.ans.push("ok".into()); for t in &mut d.tracks { t.pos = 0; } } }
                    Ok(Err(e)) => {
                        if reload { q.ops.push("ld".into()); q.ans.push("err".into()); }
                        // notes that the 16-bit length field of the comment header cannot express: a class of its own
                        let long = d.comment.as_ref().map(|c| c.1.len() > 65535).unwrap_or(false);
                        q.fail("saved-image-reloads", format!("{}/reload-refused{}", sigp, if long { ":notes-exceed-16-bit-length" } else { "" }), e.to_string());
                    }
                    Err(p) => { if reload { q.ops.push("ld".into()); q.ans.push("panic".into()); } q.stop = true; q.fail("saved-image-reloads", format!("{}/reload-panic:{}", sigp, src_file(&p)), p); }
                }
            }
            Err(p) => { q.ops.push(if reload { "ld" } else { "sv" }.into()); q.ans.push("panic".into()); q.stop = true; q.fail("no-panic", format!("{}/to_bytes-panic:{}", sigp, src_file(&p)), p); }
        }
    }

    /// one op sequence on a loaded TD0 image
    pub fn td0_case(ctx: &mut Ctx, fam: &str, idx: usize, rng: &mut Rng, with_meta: bool) {
        let mut d = gen_td0(rng);
        let file = td_encode(&d);
        let sigp = format!("{}/td0/mixed-flags", fam);
        let mut desc = format!("idx={} td0-mixed comment={:?} tracks=[{}] file={} ops=", idx, d.comment.as_ref().map(|c| String::from_utf8_lossy(&c.1[..c.1.len().min(60)]).to_string()),
            d.tracks.iter().map(|t| format!("c{}h{}:{}", t.cyl, t.head, t.secs.iter().map(|s| format!("{}/z{}/f{:02x}/e{}", s.id(), s.shift(), s.flags(), s.rec.get(2).map(|e| e.to_string()).unwrap_or("-".into()))).collect::<Vec<_>>().join(","))).collect::<Vec<_>>().join(" "), hx(&file));
        // `String::from_utf8_lossy` of the comment bytes: std's, handed to the model as a parameter
        let lossy: Vec<u8> = d.comment.as_ref().map(|c| String::from_utf8_lossy(&c.1).into_owned().into_bytes()).unwrap_or_default();
        let fix = td0_limits_notes();
        let prefix = format!("{} td0seqx {} {} {}", fam, hx(&file), hx(&lossy), fix as u8);
        let mut img: Box<dyn DiskImage> = match guarded(|| a2kit::img::td0::Td0::from_bytes(&file)) {
            Ok(Ok(i)) => Box::new(i),
            Ok(Err(e)) => { ctx.out.q(&format!("{} td0seq {} -", fam, hx(&file)), "load:err"); ctx.out.oracle(false, "mixed-image-loads", &format!("{}/load-refused", sigp), &format!("{} err={}", desc, e)); ctx.out.case(&file, false); return; }
            Err(p) => { ctx.out.q(&format!("{} td0seq {} -", fam, hx(&file)), "load:panic"); ctx.out.oracle(false, "mixed-image-loads", &format!("{}/load-panic:{}", sigp, src_file(&p)), &format!("{} panic={}", desc, p)); ctx.out.case(&file, false); return; }
        };
        // the notes in memory: NUL is a line end; the repaired tree cuts what the 16-bit length field cannot express
        if let Some((_, text)) = &mut d.comment {
            let mut notes = normalize(&td_notes_mem(text));
            if fix && notes.len() > 65535 { let mut e = 65535; while !notes.is_char_boundary(e) { e -= 1; } notes.truncate(e); }
            *text = td_notes_file(&notes);
        }
        let mut q = Seq { ops: vec![], ans: vec!["load:ok".into()], fails: vec![], stop: false };
        // what a2kit shows of the foreign comment, then (half of the cases) a save of the UNTOUCHED object and a reload
        {
            q.ops.push("mg".into());
            let got = leaf(&img.get_metadata(None), &["td0", "comment", "notes"]);
            q.ans.push(match &got { Some(s) => format!("mg:{}", hx(s.as_bytes())), None => "mg:none".into() });
            let want = d.comment.as_ref().map(|c| td_notes_mem(&c.1));
            if got != want { q.fail("foreign-notes-shown", format!("{}/loaded-notes-differ", sigp), format!("want {:?} got {:?}", want, got)); }
            if d.comment.as_ref().map(|c| c.1.len() > 65535).unwrap_or(false) { ctx.out.count("mixed:td0:notes-exceed-16-bit-length"); }
            if rng.chance(50) { td_save(&mut img, &mut d, &mut q, &sigp, &mut desc, true); }
        }
        let mut last_w: Option<(usize, usize)> = None;
        let ntr = d.tracks.len();
        let nops = 10 + rng.below(22);
        let mut wrote_flagged_uniform = false; let mut wrote = false; let mut read_after = false;
        let mut plan: Vec<usize> = (0..nops).map(|_| rng.below(100)).collect();
        plan.push(1000);
        for r in plan {
            if q.stop { break; }
            if r == 1000 {
                for ti in 0..ntr { for si in 0..d.tracks[ti].secs.len() { if !q.stop { let id = d.tracks[ti].secs[si].id() as usize; td_read(&mut img, &mut d, &mut q, ti, id, &sigp, last_w, &mut desc); } } }
                continue;
            }
            let ti = rng.below(ntr);
            let (cyl, head) = (d.tracks[ti].cyl as usize, (d.tracks[ti].head & 1) as usize);
            let ti = d.tracks.iter().position(|t| t.cyl as usize == cyl && (t.head & 1) as usize == head).unwrap();
            let n = d.tracks[ti].secs.len();
            if r < 40 && n > 0 {
                // writes prefer the sectors that have no data yet, and uniform data
                let flagged: Vec<usize> = (0..n).filter(|i| d.tracks[ti].secs[*i].nodata()).collect();
                let si = if !flagged.is_empty() && rng.chance(45) { *rng.pick(&flagged) } else { rng.below(n) };
                let id = d.tracks[ti].secs[si].id() as usize;
                let t = &mut d.tracks[ti];
                let ids: Vec<u8> = t.secs.iter().map(|s| s.id()).collect();
                let hit = seek(&ids, &mut t.pos, id).unwrap();
                let size = 128usize << t.secs[hit].shift();
                let dat = write_data(rng, size);
                desc += &format!("W{}/{}/{}:{} ", cyl, head, id, dat.len());
                q.ops.push(format!("ws:{}:{}:{}:{}", cyl, head, id, hx(&dat)));
                let res = guarded(|| img.write_sector(cyl, head, id, &dat).map_err(|e| e.to_string()));
                match res {
                    Ok(Ok(())) => {
                        q.ans.push("ok".into());
                        let s = &mut t.secs[hit];
                        let padded = pad(&dat[..dat.len().min(size)], size);
                        if s.nodata() && uniform(&padded) { wrote_flagged_uniform = true; }
                        s.hdr[4] &= !0x30; s.rec = td_pack(&padded); s.content = Some(padded);
                        last_w = Some((ti, hit)); wrote = true;
                    }
                    // a sector that is on the track is a valid address whether or not the dump has data for it
                    Ok(Err(_)) => { q.ans.push("err".into()); q.fail("valid-write-accepted", format!("{}/valid-write-refused", sigp), format!("write to c{} h{} id {} (record {}, flags {:02x}) refused", cyl, head, id, hit, t.secs[hit].flags())); }
                    Err(p) => { q.ans.push("panic".into()); q.stop = true; q.fail("no-panic", format!("{}/write-panic:{}", sigp, src_file(&p)), format!("write c{} h{} id {} panic={}", cyl, head, id, p)); }
                }
                // read it back at once (not through the head's next revolution only), then a neighbour or two
                if !q.stop && rng.chance(70) { if td_read(&mut img, &mut d, &mut q, ti, id, &sigp, last_w, &mut desc) { read_after = true; } }
                for _ in 0..rng.below(3) { if !q.stop { let sj = rng.below(n); let idj = d.tracks[ti].secs[sj].id() as usize; td_read(&mut img, &mut d, &mut q, ti, idj, &sigp, last_w, &mut desc); } }
            } else if r < 70 && n > 0 {
                let si = rng.below(n);
                let id = d.tracks[ti].secs[si].id() as usize;
                if td_read(&mut img, &mut d, &mut q, ti, id, &sigp, last_w, &mut desc) && wrote { read_after = true; }
            } else if r < 80 {
                let ids: Vec<usize> = d.tracks[ti].secs.iter().map(|s| s.id() as usize).collect();
                let bad = |rng: &mut Rng| -> usize { loop { let c = match rng.below(4) { 0 => 256 + rng.below(300), 1 => rng.below(256), 2 => ids.iter().max().map(|m| m + 1).unwrap_or(1), _ => 65536 + ids.first().cloned().unwrap_or(0) }; if !ids.contains(&c) { return c; } } };
                let (c, h, s) = match rng.below(3) { 0 => (cyl, head, bad(rng)), 1 => (200 + rng.below(100), head, ids.first().cloned().unwrap_or(1)), _ => (cyl, 2 + rng.below(14), ids.first().cloned().unwrap_or(1)) };
                let write = rng.chance(50);
                let dat = write_data(rng, 256);
                desc += &format!("{}!{}/{}/{} ", if write { "W" } else { "R" }, c, h, s);
                q.ops.push(if write { format!("ws:{}:{}:{}:{}", c, h, s, hx(&dat)) } else { format!("rs:{}:{}:{}", c, h, s) });
                let res = guarded(|| if write { img.write_sector(c, h, s, &dat).map(|_| vec![]).map_err(|e| e.to_string()) } else { img.read_sector(c, h, s).map_err(|e| e.to_string()) });
                match res {
                    Ok(Ok(v)) => { q.ans.push(if write { "ok".into() } else { format!("ok:{}", hx(&v)) }); q.fail("invalid-refused", format!("{}/invalid-accepted", sigp), format!("c{} h{} id {} does not exist but was {}", c, h, s, if write { "written" } else { "read" })); if write { q.stop = true; } }
                    Ok(Err(_)) => q.ans.push("err".into()),
                    Err(p) => { q.ans.push("panic".into()); q.stop = true; q.fail("invalid-refused", format!("{}/invalid-panic:{}", sigp, src_file(&p)), format!("c{} h{} id {} panic={}", c, h, s, p)); }
                }
            } else if r < 88 || (with_meta && r < 92) {
                td_save(&mut img, &mut d, &mut q, &sigp, &mut desc, false);
            } else if with_meta && r < 98 {
                let mut v = note_texts(rng, false);
                if rng.chance(4) { v = "0123456789abcdef".repeat(4100 + rng.below(200)); } // more than the length field can say
                let too_long = fix && normalize(&v).len() > 65535;
                let key = vec!["td0".to_string(), "comment".to_string(), "notes".to_string()];
                let res = guarded(|| img.put_metadata(&key, &json::JsonValue::String(v.clone())).map_err(|e| e.to_string()));
                let meta = img.get_metadata(None);
                // the time stamp of a comment block made now is whatever the clock says: taken from what the object shows
                let stamp = leaf(&meta, &["td0", "comment", "timestamp", "_raw"]).and_then(|s| hex::decode(s).ok()).unwrap_or(vec![0; 6]);
                desc += &format!("NT{:?} ", v.chars().take(60).collect::<String>());
                q.ops.push(format!("nt:{}:{}", hx(&stamp), hx(v.as_bytes())));
                match res {
                    Ok(Ok(())) => {
                        q.ans.push("ok".into());
                        if v.contains('\u{0}') { q.fail("metadata-put", format!("{}/notes-with-nul-accepted", sigp), format!("{:?}", v)); }
                        if too_long { q.fail("metadata-put", format!("{}/over-long-notes-accepted", sigp), format!("{} bytes", v.len())); }
                        let text = td_notes_file(&normalize(&v));
                        d.comment = Some(match d.comment.take() { Some((st, _)) => (st, text), None => (stamp.clone(), text) });
                    }
                    Ok(Err(_)) => { q.ans.push("refused".into()); if !v.contains('\u{0}') && !too_long { q.fail("metadata-put", format!("{}/notes-refused", sigp), format!("{:?}", &v[..v.len().min(80)])); } }
                    Err(p) => { q.ans.push("panic".into()); q.stop = true; q.fail("no-panic", format!("{}/put_metadata-panic:{}", sigp, src_file(&p)), p); }
                }
                if !q.stop {
                    q.ops.push("mg".into());
                    let got = leaf(&img.get_metadata(None), &["td0", "comment", "notes"]);
                    q.ans.push(match &got { Some(s) => format!("mg:{}", hx(s.as_bytes())), None => "mg:none".into() });
                    let want = d.comment.as_ref().map(|c| td_notes_mem(&c.1));
                    if got != want { q.fail("metadata-put-then-get", format!("{}/notes-put-get-differs", sigp), format!("want {:?} got {:?}", want, got)); }
                }
            } else {
                td_save(&mut img, &mut d, &mut q, &sigp, &mut desc, true);
                if !q.stop && with_meta {
                    q.ops.push("mg".into());
                    let got = leaf(&img.get_metadata(None), &["td0", "comment", "notes"]);
                    q.ans.push(match &got { Some(s) => format!("mg:{}", hx(s.as_bytes())), None => "mg:none".into() });
                    let want = d.comment.as_ref().map(|c| td_notes_mem(&c.1));
                    if got != want { q.fail("metadata-after-reload", format!("{}/notes-differ-after-reload", sigp), format!("want {:?} got {:?}", want, got)); }
                }
            }
        }
        if wrote_flagged_uniform { ctx.out.count("mixed:td0:uniform-write-to-no-data-sector"); }
        ctx.out.count(if fix { "probe:td0-notes-limited-to-65535" } else { "probe:td0-notes-unlimited" });
        let nontrivial = wrote && read_after && d.tracks.iter().any(|t| t.secs.iter().any(|s| s.rec.get(2).map(|e| *e != 0).unwrap_or(true)));
        finish_seq(ctx, &prefix, q, &desc, nontrivial, "td0");
    }
}
