//! harness family c08: sector/block storage is exact and non-interfering (property C08)
//!
//! Part A (idx 0..): nibble codecs 4&4, 6&2, 5&3 on single tracks made with the public
//!   `disk525::format_std16_track/format_std13_track` and driven through the public `TrackBits`
//!   trait object; the data-field nibbles are cut out of the track and compared with the Lean model.
//! Part B (idx 100000..): random op sequences on whole images of all ten formats (see below).
use crate::util::*;
use a2kit::img::disk525;
use a2kit::img::{NibbleError, TrackBits};

const SKEW13: [u8; 13] = [0, 10, 7, 4, 1, 11, 8, 5, 2, 12, 9, 6, 3];

fn nib_err(e: &NibbleError) -> &'static str {
    match e {
        NibbleError::BadTrack => "bad-track",
        NibbleError::InvalidByte => "invalid-byte",
        NibbleError::BadChecksum => "bad-checksum",
        NibbleError::BitPatternNotFound => "pattern-not-found",
        NibbleError::SectorNotFound => "sector-not-found",
        NibbleError::NibbleType => "nibble-type",
    }
}

/// sector contents: the classes named in the property's tie
fn sector_content(rng: &mut Rng, class: usize, sub: usize) -> (Vec<u8>, String) {
    match class {
        0 => (rng.bytes(256), "random".into()),
        1 => { let b = rng.byte(); (vec![b; 256], "all-equal".into()) }
        2 => { let mut v = vec![0u8; 256]; let p = rng.below(256); v[p] = 1 << rng.below(8); (v, "single-bit".into()) }
        3 => {
            // byte value `sub % 256` at one of three positions, rest random-but-fixed filler
            let val = (sub % 256) as u8;
            let pos = [0usize, 85, 86, 171, 172, 254, 255, 128][(sub / 256) % 8];
            let fill = if rng.chance(50) { 0 } else { rng.byte() };
            let mut v = vec![fill; 256];
            v[pos] = val;
            (v, "byte-at-pos".into())
        }
        4 => { let mut v = vec![0xffu8; 256]; let p = rng.below(256); v[p] ^= 1 << rng.below(8); (v, "single-zero-bit".into()) }
        _ => { let a = rng.byte(); let b = rng.byte(); ((0..256).map(|i| if i % 2 == 0 { a } else { b }).collect(), "alternating".into()) }
    }
}

/// Cut the data field nibbles of the sector with address `sector` out of an aligned nibble stream.
/// `apro3` is the third address prolog byte (0x96 / 0xB5), `n` the number of data nibbles.
fn data_field(nibs: &[u8], apro3: u8, sector: u8, n: usize) -> Option<(usize, Vec<u8>)> {
    let len = nibs.len();
    let mut i = 0;
    while i + 14 < len {
        if nibs[i] == 0xd5 && nibs[i + 1] == 0xaa && nibs[i + 2] == apro3 {
            let sec = disk525::decode_44([nibs[i + 7], nibs[i + 8]]);
            if sec == sector {
                // data prolog must follow within the gap
                let mut j = i + 11;
                while j + 3 + n <= len && j < i + 11 + 60 {
                    if nibs[j] == 0xd5 && nibs[j + 1] == 0xaa && nibs[j + 2] == 0xad {
                        return Some((j + 3, nibs[j + 3..j + 3 + n].to_vec()));
                    }
                    j += 1;
                }
                return None;
            }
            i += 11;
        } else {
            i += 1;
        }
    }
    None
}

fn addr_field(nibs: &[u8], apro3: u8) -> Option<Vec<u8>> {
    for i in 0..nibs.len().saturating_sub(11) {
        if nibs[i] == 0xd5 && nibs[i + 1] == 0xaa && nibs[i + 2] == apro3 {
            return Some(nibs[i + 3..i + 11].to_vec());
        }
    }
    None
}

struct TrackCase {
    six_two: bool,
    sync_bits: usize,
    vol: u8,
    track: u8,
}

fn make_track(tc: &TrackCase) -> (Vec<u8>, Box<dyn TrackBits>) {
    let buf_len = if tc.sync_bits == 8 { 6656 } else { 6646 };
    if tc.six_two { disk525::format_std16_track(tc.vol, tc.track, buf_len, tc.sync_bits) }
    else { disk525::format_std13_track(tc.vol, tc.track, buf_len, tc.sync_bits) }
}

fn codec_case(ctx: &mut Ctx, gidx: usize, idx: usize, rng: &mut Rng) {
    let six_two = idx % 2 == 0;
    let nsec: usize = if six_two { 16 } else { 13 };
    let nn = if six_two { 343 } else { 411 };
    let (enc_op, dec_op) = if six_two { ("enc62", "dec62") } else { ("enc53", "dec53") };
    let apro3 = if six_two { 0x96 } else { 0xb5 };
    let sync_bits = match (idx / 2) % 3 { 0 => 8, 1 => if six_two { 10 } else { 9 }, _ => *rng.pick(&[8usize, 9, 10]) };
    let tc = TrackCase { six_two, sync_bits, vol: rng.byte(), track: rng.below(35) as u8 };
    let class = if idx < 4096 { 3 } else { [0, 0, 0, 1, 2, 4, 5, 3][rng.below(8)] };
    let nwrites = 1 + rng.below(3);
    let mut desc = format!("idx={} codec={} sync={} vol={} track={}", gidx, if six_two { "62" } else { "53" }, sync_bits, tc.vol, tc.track);
    let mut canon: Vec<u8> = vec![six_two as u8, sync_bits as u8];
    let res = guarded(|| {
        let mut out: Vec<(String, String)> = Vec::new(); // Q lines
        let mut fails: Vec<(String, String)> = Vec::new(); // (oracle, sig)
        let (mut bits, mut obj) = make_track(&tc);
        if rng.chance(50) { obj.set_bit_ptr(rng.below(obj.bit_count())); }
        let mut expect: Vec<Vec<u8>> = vec![vec![0u8; 256]; nsec];
        let mut written: Vec<(u8, Vec<u8>)> = Vec::new();
        for w in 0..nwrites {
            let sector = rng.below(nsec) as u8;
            let (dat, cls) = sector_content(rng, class, idx / 2 + w * 977);
            match obj.write_sector(&mut bits, &dat, tc.track, sector) {
                Ok(()) => {}
                Err(e) => { fails.push(("codec-write-accepted".into(), format!("codec/write-refused/{}", nib_err(&e)))); continue; }
            }
            expect[sector as usize] = dat.clone();
            written.push((sector, dat.clone()));
            // model comparison: the nibbles now in the data field
            let save = obj.get_bit_ptr();
            let nibs = obj.to_nibbles(&bits);
            obj.set_bit_ptr(save);
            match data_field(&nibs, apro3, sector, nn) {
                Some((_, field)) => out.push((format!("c08 {} {}", enc_op, hx(&dat)), hx(&field))),
                None => fails.push(("codec-field-present".into(), "codec/data-field-not-found".into())),
            }
            // direct oracle: everything on the track reads as expected, in a random order
            let mut order: Vec<usize> = (0..nsec).collect();
            for i in (1..nsec).rev() { let j = rng.below(i + 1); order.swap(i, j); }
            for s in order {
                match obj.read_sector(&bits, tc.track, s as u8) {
                    Ok(got) => if got != expect[s] {
                        let sig = if s as u8 == sector { "codec/readback-differs" } else { "codec/other-sector-changed" };
                        fails.push(("codec-readback".into(), sig.into()));
                    },
                    Err(e) => fails.push(("codec-readback".into(), format!("codec/read-refused/{}", nib_err(&e)))),
                }
            }
            // wrong track number in the request must be refused
            if w == 0 {
                let wrong = tc.track.wrapping_add(1 + rng.below(200) as u8);
                if wrong != tc.track {
                    if let Ok(_) = obj.read_sector(&bits, wrong, sector) { fails.push(("codec-wrong-track".into(), "codec/wrong-track-accepted".into())); }
                }
                if let Ok(_) = obj.read_sector(&bits, tc.track, nsec as u8 + rng.below(200) as u8) { fails.push(("codec-wrong-sector".into(), "codec/missing-sector-accepted".into())); }
            }
            desc += &format!(" w{}=({},{})", w, sector, cls);
            canon.push(sector); canon.extend_from_slice(&dat);
        }
        // decoder on damaged fields (aligned 8-bit tracks only, where a byte is a nibble)
        if sync_bits == 8 && !written.is_empty() {
            let (sector, _) = written[written.len() - 1].clone();
            // position of the field in the raw buffer = position in the aligned stream from the start
            if let Some((off, field)) = data_field(&bits, apro3, sector, nn) {
                let mut dmg = field.clone();
                let kind = rng.below(4);
                let npos = 1 + rng.below(3);
                for _ in 0..npos {
                    let p = rng.below(nn);
                    dmg[p] = match kind {
                        0 => 0x80 | rng.byte(),                       // any byte with the high bit set
                        1 => field[rng.below(nn)],                    // some valid disk byte
                        2 => *rng.pick(&[0xd5u8, 0xaa, 0x80, 0x95, 0x94]), // never in a table
                        _ => dmg[p] ^ (1 << rng.below(7)),
                    };
                }
                bits[off..off + nn].copy_from_slice(&dmg);
                let ans = match obj.read_sector(&bits, tc.track, sector) {
                    Ok(v) => format!("ok {}", hx(&v)),
                    Err(e) => format!("err {}", nib_err(&e)),
                };
                out.push((format!("c08 {} {}", dec_op, hx(&dmg)), ans));
                bits[off..off + nn].copy_from_slice(&field);
            }
        }
        // decoder on the intact field of the last write
        if let Some((sector, _)) = written.last().cloned() {
            let save = obj.get_bit_ptr();
            let nibs = obj.to_nibbles(&bits);
            obj.set_bit_ptr(save);
            if let Some((_, field)) = data_field(&nibs, apro3, sector, nn) {
                let ans = match obj.read_sector(&bits, tc.track, sector) {
                    Ok(v) => format!("ok {}", hx(&v)),
                    Err(e) => format!("err {}", nib_err(&e)),
                };
                out.push((format!("c08 {} {}", dec_op, hx(&field)), ans));
            }
        }
        (out, fails, desc.clone())
    });
    match res {
        Ok((out, fails, d)) => {
            for (q, a) in &out { ctx.out.q(q, a); }
            if fails.is_empty() { ctx.out.oracle(true, "codec-track", "-", &d); }
            for (o, s) in &fails { ctx.out.oracle(false, o, s, &d); }
            ctx.out.sample(&d);
            ctx.out.count(if six_two { "codec:62" } else { "codec:53" });
            ctx.out.count(&format!("codec:sync{}", sync_bits));
        }
        Err(p) => ctx.out.oracle(false, "codec-no-panic", &format!("panic:{}", panic_site(&p)), &desc),
    }
    ctx.out.case(&canon, true);
}

/// 4&4: `encode_44` is private; it is observable in the address field of a formatted track
/// (volume, track, sector, checksum), `decode_44` is public.
fn addr44_case(ctx: &mut Ctx, idx: usize, rng: &mut Rng) {
    let v = (idx % 256) as u8;
    let track = rng.byte();
    let six_two = rng.chance(50);
    let desc = format!("idx={} addr44 vol={} track={} six_two={}", idx, v, track, six_two);
    let res = guarded(|| {
        let tc = TrackCase { six_two, sync_bits: 8, vol: v, track };
        let (bits, _obj) = make_track(&tc);
        addr_field(&bits, if six_two { 0x96 } else { 0xb5 })
    });
    match res {
        Ok(Some(f)) => {
            ctx.out.q(&format!("c08 enc44 {}", hx(&[v])), &hx(&f[0..2]));
            ctx.out.q(&format!("c08 enc44 {}", hx(&[track])), &hx(&f[2..4]));
            ctx.out.q(&format!("c08 enc44 {}", hx(&[v ^ track ^ 0])), &hx(&f[6..8])); // first sector is 0
            let back = disk525::decode_44([f[0], f[1]]);
            ctx.out.oracle(back == v, "codec44-roundtrip", "codec/44/roundtrip", &desc);
            let a = rng.byte(); let b = rng.byte();
            ctx.out.q(&format!("c08 dec44 {}", hx(&[a, b])), &hx(&[disk525::decode_44([a, b])]));
        }
        Ok(None) => ctx.out.oracle(false, "codec44-field-present", "codec/44/address-field-not-found", &desc),
        Err(p) => ctx.out.oracle(false, "codec-no-panic", &format!("panic:{}", panic_site(&p)), &desc),
    }
    ctx.out.count("codec:44");
    ctx.out.case(&[4, 4, v, track], true);
}

pub fn run(ctx: &mut Ctx) {
    let mut rng = Rng::new(ctx.seed);
    // Part A: 4&4 (all 256 values), then track codecs; the first 4096 indices walk every byte value
    // at 8 positions for both codecs, the rest is the random mix
    let n44 = 256;
    for idx in 0..n44 {
        let mut r = rng.fork(idx as u64);
        if ctx.out.wants(idx) { addr44_case(ctx, idx, &mut r); }
    }
    let base = 1000;
    let ncodec = ctx.n(1536, 4096 + 8000);
    for k in 0..ncodec {
        // quick tier: spread over the 4096 structured cases with a stride coprime to 4096
        let sub = if ctx.tier_thorough { k } else if k < 1024 { (k * 1365 + (ctx.seed as usize % 4096)) % 4096 } else { 4096 + k };
        let idx = base + sub;
        let mut r = rng.fork(idx as u64);
        if ctx.out.wants(idx) { codec_case(ctx, idx, sub, &mut r); }
    }
    let _ = SKEW13;
}
