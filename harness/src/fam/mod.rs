//! one module per family; a family serves one or more properties
use crate::util::Ctx;
pub mod fs;
pub mod fs_prodos;
pub mod fs_dos;
pub mod fs_cpm;
pub mod fs_fat;
pub mod c01;
pub mod c02;
pub mod c03;
pub mod c04;
pub mod c05;
pub mod c06;
pub mod c06id;
pub mod c06img;
pub mod c08trk;
pub mod c12fs;
pub mod c07;
pub mod c08;
pub mod c09;
pub mod c10;
pub mod c11;
pub mod c12;
pub mod c13;
pub mod c14;
pub mod c15;
pub mod c16;
pub mod c17;
pub mod c18;
pub mod c19;
pub mod c20;

pub fn run(name: &str, ctx: &mut Ctx) -> bool {
    match name {
        "selftest" => { ctx.out.q("ping x", "pong"); ctx.out.case(b"ping", true); ctx.out.case(b"ping2", true); ctx.out.sample("ping"); }
        "c01" => c01::run(ctx),
        "c02" => c02::run(ctx),
        "c03" => c03::run(ctx),
        "c04" => c04::run(ctx),
        "c05" => c05::run(ctx),
        "c06" => c06::run(ctx),
        "c06id" => c06id::run(ctx),
        "c06img" => c06img::run(ctx),
        "c08trk" => c08trk::run(ctx),
        "c12fs" => c12fs::run(ctx),
        "c07" => c07::run(ctx),
        "c08" => c08::run(ctx),
        "c09" => c09::run(ctx),
        "c10" => c10::run(ctx),
        "c11" => c11::run(ctx),
        "c12" => c12::run(ctx),
        "c13" => c13::run(ctx),
        "c14" => c14::run(ctx),
        "c15" => c15::run(ctx),
        "c16" => c16::run(ctx),
        "c17" => c17::run(ctx),
        "c18" => c18::run(ctx),
        "c19" => c19::run(ctx),
        "c20" => c20::run(ctx),
        _ => return false,
    }
    true
}
