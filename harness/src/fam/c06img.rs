//! harness family c06img — stub until the family is built
use crate::util::*;

pub fn run(ctx: &mut Ctx) { ctx.out.case(b"c06img-stub", false); }
