//! harness family c06img (property C06: a saved image reloads to the same volume) — volumes whose IMAGE METADATA
//! was edited through the metadata interface before the save.
//!
//! Per case: a volume with a file system and files on a container that has metadata (TD0, IMD, WOZ1, WOZ2, 2MG);
//! 1-4 edits with `put_metadata` (TD0 notes of other lengths — also none before —, TD0 header bytes, the read-only
//! time stamp, IMD comment / header, WOZ INFO and META keys, 2MG comment / creator / flags); then `to_bytes` and
//! `create_fs_from_bytestream` with and without the extension hint: same file system, image type, disk kind,
//! catalog tree, every file (all FileImage fields and chunks), free space; the edited keys read back; the metadata
//! of the reloaded image equals that of the saved object; the reloaded image and the saved object both serialise
//! to the same bytes again.  Half of the TD0 / IMD cases are also run through the Lean object model
//! (`c06img td0seq|imdseq`: load the bytes saved BEFORE the edits, apply the notes / comment edits, save): the
//! bytes the real code saves after the edits must be the model's.
use crate::util::*;
use super::fs::{make_volume, Fs, VolCfg};
use a2kit::fs::DiskFS;
use a2kit::img::{names, DiskKind};

fn cfgs(thorough: bool) -> Vec<VolCfg> {
    let mut v = Vec::new();
    let mut add = |fs, container, kind, kind_name| v.push(VolCfg { fs, container, kind, kind_name, flat: false });
    add(Fs::Fat, "td0", DiskKind::D35(names::IBM_720), "ibm-720");
    add(Fs::Fat, "td0", DiskKind::D525(names::IBM_DSDD_9), "ibm-dsdd-9");
    add(Fs::Cpm2, "td0", names::OSBORNE1_SD_KIND, "osborne-sd");
    add(Fs::Cpm3, "td0", names::AMSTRAD_SS_KIND, "amstrad-ss");
    add(Fs::Fat, "imd", DiskKind::D525(names::IBM_DSDD_9), "ibm-dsdd-9");
    add(Fs::Cpm2, "imd", names::OSBORNE1_DD_KIND, "osborne-dd");
    add(Fs::Cpm2, "imd", names::KAYPRO4_KIND, "kaypro4");
    add(Fs::Dos33, "woz1", names::A2_DOS33_KIND, "a2-525-16");
    add(Fs::Dos33, "woz2", names::A2_DOS33_KIND, "a2-525-16");
    add(Fs::Prodos, "woz2", names::A2_DOS33_KIND, "a2-525-16");
    add(Fs::Pascal, "woz2", names::A2_DOS33_KIND, "a2-525-16");
    add(Fs::Prodos, "2mg-po", names::A2_800_KIND, "a2-35-800");
    add(Fs::Prodos, "2mg-do", names::A2_DOS33_KIND, "a2-525-16");
    add(Fs::Dos33, "2mg-do", names::A2_DOS33_KIND, "a2-525-16");
    if thorough {
        add(Fs::Fat, "td0", DiskKind::D525(names::IBM_SSDD_9), "ibm-ssdd-9");
        add(Fs::Fat, "td0", DiskKind::D35(names::IBM_1440), "ibm-1440");
        add(Fs::Cpm2, "td0", names::KAYPROII_KIND, "kayproii");
        add(Fs::Cpm2, "td0", names::OSBORNE1_DD_KIND, "osborne-dd");
        add(Fs::Fat, "imd", DiskKind::D35(names::IBM_720), "ibm-720");
        add(Fs::Cpm3, "imd", names::AMSTRAD_SS_KIND, "amstrad-ss");
        add(Fs::Cpm2, "imd", names::NABU_CPM_KIND, "nabu");
        add(Fs::Dos32, "woz1", names::A2_DOS32_KIND, "a2-525-13");
        add(Fs::Dos32, "woz2", names::A2_DOS32_KIND, "a2-525-13");
        add(Fs::Prodos, "woz2", names::A2_800_KIND, "a2-35-800");
        add(Fs::Prodos, "woz1", names::A2_DOS33_KIND, "a2-525-16");
        add(Fs::Dos33, "2mg-nib", names::A2_DOS33_KIND, "a2-525-16");
        add(Fs::Cpm2, "woz2", names::A2_DOS33_KIND, "a2-525-16");
    }
    v
}

fn site(p: &str) -> String {
    let s = p.split(" [").next().unwrap_or(p);
    let s = match s.find("src/") { Some(i) => &s[i..], None => s };
    s.split(':').next().unwrap_or(s).to_string()
}

fn file_name(fs: Fs, k: usize, rng: &mut Rng) -> String {
    let stem = format!("{}{}", rng.pick(&["DATA", "FILE", "REPORT", "A", "LONGNAME"]), k);
    match fs { Fs::Dos33 | Fs::Dos32 | Fs::Prodos => stem, Fs::Pascal => format!("{}.DATA", stem), _ => format!("{}.BIN", &stem[..stem.len().min(8)]) }
}

/// everything the property lists, as one comparable text
fn snapshot(d: &mut Box<dyn DiskFS>, files: &[String]) -> Result<Vec<(String, String)>, String> {
    let mut v: Vec<(String, String)> = Vec::new();
    let st = d.stat().map_err(|e| format!("stat: {}", e))?;
    v.push(("file-system".into(), st.fs_name.clone()));
    v.push(("free-space".into(), format!("{} of {}..{} x {}", st.free_blocks, st.block_beg, st.block_end, st.block_size)));
    v.push(("label".into(), st.label.clone()));
    v.push(("image-type".into(), d.get_img().what_am_i().to_string()));
    v.push(("disk-kind".into(), d.get_img().kind().to_string()));
    v.push(("catalog-tree".into(), d.tree(true, None).map_err(|e| format!("tree: {}", e))?));
    for f in files {
        let g = d.get(f).map_err(|e| format!("get {}: {}", f, e))?;
        let mut keys: Vec<&usize> = g.chunks.keys().collect();
        keys.sort();
        let mut h: u64 = 0xcbf29ce484222325;
        for k in keys { h = (h ^ *k as u64).wrapping_mul(0x100000001b3); h = (h ^ fnv(&g.chunks[k])).wrapping_mul(0x100000001b3); }
        v.push((format!("file-contents {}", f), format!("chunk_len={} chunks={} hash={:016x} eof={} type={} aux={} access={} created={} modified={} version={}/{}", g.chunk_len, g.chunks.len(), h,
            hx(&g.eof), hx(&g.fs_type), hx(&g.aux), hx(&g.access), hx(&g.created), hx(&g.modified), hx(&g.version), hx(&g.min_version))));
    }
    Ok(v)
}

fn ext_of(container: &str) -> &'static str {
    match container { "td0" => "td0", "imd" => "imd", "woz1" | "woz2" => "woz", _ => "2mg" }
}

/// keys whose value decides how the bytes are interpreted as a disk (number of heads, drive type, recording mode,
/// block count): changing them is changing the disk, not its description — they are re-put with the value they have
fn structural(path: &[String]) -> bool {
    let p: Vec<&str> = path.iter().map(|s| s.as_str()).filter(|s| *s != "_raw").collect();
    matches!(p.as_slice(), ["td0", "header", "sides"] | ["td0", "header", "drive_type"] | ["td0", "header", "data_rate"] | ["td0", "header", "stepping"] | ["2mg", "header", "blocks"])
}

fn notes_text(rng: &mut Rng) -> String {
    let base = ["Backup of the accounting diskette\nmade from drive B:\nverified twice", "", "x", "disk 2", "ünïcödé 日本語", "two\r\nlines",
                "a much longer text that certainly does not have the length of the comment the image was created with; "];
    let mut s = rng.pick(&base[..]).to_string();
    if rng.chance(25) { let k = 2 + rng.below(5); s = s.repeat(k); }
    s
}

fn one_case(ctx: &mut Ctx, idx: usize, cfg: &VolCfg, rng: &mut Rng) {
    let label = format!("{}/{}/{}", format!("{:?}", cfg.fs).to_lowercase(), cfg.container, cfg.kind_name);
    let mk_sig = |wp: bool, what: &str| if wp { format!("c06img/{}/write-protected/{}", cfg.container, what) } else { format!("c06img/{}/{}", cfg.container, what) };
    let sig = |what: &str| mk_sig(false, what);
    let mut desc = format!("idx={} cfg={} ", idx, label);
    let out = &mut ctx.out;
    let mut disk = match guarded(|| make_volume(cfg)) {
        Ok(Ok(d)) => d,
        Ok(Err(e)) => { out.oracle(false, "volume-created", &sig("volume-not-created"), &format!("{} err={}", desc, e)); return; }
        Err(p) => { out.oracle(false, "volume-created", &sig(&format!("create-panic:{}", site(&p))), &format!("{} panic={}", desc, p)); return; }
    };
    // files (and a directory where the file system has them)
    let mut files: Vec<String> = Vec::new();
    let dir = if matches!(cfg.fs, Fs::Fat | Fs::Prodos) && rng.chance(60) { if guarded(|| disk.create("DIR1")).map(|r| r.is_ok()).unwrap_or(false) { Some("DIR1") } else { None } } else { None };
    let nfiles = 1 + rng.below(4);
    for k in 0..nfiles {
        let name = file_name(cfg.fs, k, rng);
        let path = match dir { Some(d) if rng.chance(50) => format!("{}/{}", d, name), _ => name };
        let len = *rng.pick(&[1usize, 100, 255, 256, 257, 1000, 3000, 5000, 9000]) + rng.below(50);
        let dat = gen_data(rng, len).0;
        match guarded(|| disk.bsave(&path, &dat, Some(0x2000), None).map_err(|e| e.to_string())) {
            Ok(Ok(_)) => { desc += &format!("bsave {}:{} ", path, len); files.push(path); }
            Ok(Err(_)) => {}
            Err(p) => { out.oracle(false, "no-panic", &sig(&format!("bsave-panic:{}", site(&p))), &format!("{} panic={}", desc, p)); return; }
        }
    }
    let typ = disk.get_img().what_am_i().to_string();
    let tie = matches!(cfg.container, "td0" | "imd") && rng.chance(50);
    // tie mode: the bytes before the edits are the model's starting point
    let before: Option<Vec<u8>> = if tie { guarded(|| disk.get_img().to_bytes()).ok().and_then(|b| if cfg.container == "td0" { retrocompressor::td0::expand_slice(&b).ok() } else { Some(b) }) } else { None };
    let mut mops: Vec<String> = Vec::new();
    let mut mans: Vec<String> = vec!["load:ok".into()];
    // metadata edits
    let nedits = 1 + rng.below(4);
    let mut edited: Vec<(Vec<String>, String)> = Vec::new();
    // a 2MG whose lock bit was set by an edit is a write protected volume: reading it, saving it and reloading it must
    // still work; failures of that kind get their own signature
    let mut wp = false;
    for _ in 0..nedits {
        let meta = match guarded(|| disk.get_img().get_metadata(None)) { Ok(m) => m, Err(p) => { out.oracle(false, "no-panic", &mk_sig(wp, &format!("get_img-panic:{}", site(&p))), &format!("{} panic={}", desc, p)); return; } };
        let lv = super::c09::leaves(&meta);
        let (path, val): (Vec<String>, String) = if cfg.container == "td0" && (tie || rng.chance(60)) {
            (vec!["td0".into(), "comment".into(), "notes".into()], notes_text(rng))
        } else if cfg.container == "imd" && (tie || rng.chance(60)) {
            (vec!["imd".into(), "comment".into()], notes_text(rng))
        } else if cfg.container == "woz2" && rng.chance(30) {
            // an INFO item that describes the boot sector; every accepted value must leave the volume what it is
            (vec!["woz2".into(), "info".into(), "boot_sector_format".into()], format!("{:02x}", rng.below(4)))
        } else {
            let (p, v, class) = super::c09::candidate(&typ, &lv, rng);
            if class == "no-leaf" { continue; }
            if structural(&p) { match super::c09::lookup(&meta, &p) { Some(old) => (p, old), None => continue } } else { (p, v) }
        };
        let pstr = path.join("/");
        let jv = json::JsonValue::String(val.clone());
        match guarded(|| disk.get_img().put_metadata(&path, &jv).map_err(|e| e.to_string())) {
            Err(p) => { out.oracle(false, "no-panic", &sig(&format!("put_metadata-panic:{}", site(&p))), &format!("{} put /{}={:?} panic={}", desc, pstr, val, p)); return; }
            Ok(Err(_)) => { desc += &format!("put /{}={:?}=>refused ", pstr, val); out.count("c06img:edit-refused"); if tie { mops.push(edit_op(cfg.container, &val, &disk_stamp(&mut disk))); mans.push("refused".into()); } }
            Ok(Ok(())) => {
                desc += &format!("put /{}={:?} ", pstr, val);
                out.count(&format!("c06img:edit:{}", path.iter().filter(|s| *s != "_raw").take(3).cloned().collect::<Vec<_>>().join(".")));
                if tie { mops.push(edit_op(cfg.container, &val, &disk_stamp(&mut disk))); mans.push("ok".into()); }
                if path.iter().map(|s| s.as_str()).filter(|s| *s != "_raw").collect::<Vec<_>>() == ["2mg", "header", "flags"] { wp = hex::decode(&val).map(|b| b.len() == 4 && b[3] > 127).unwrap_or(false); }
                if !super::c09::is_ro(&path) { edited.retain(|(p, _)| *p != path); edited.push((path.clone(), super::c09::normal(&path, &val))); }
                // an edit may delete a WOZ2 META key (empty value)
            }
        }
    }
    let sig = |what: &str| mk_sig(wp, what);
    if wp { out.count("c06img:write-protected-2mg"); }
    let snap0 = match guarded(|| snapshot(&mut disk, &files)) {
        Ok(Ok(s)) => s,
        Ok(Err(e)) => { out.oracle(false, "volume-readable", &sig("volume-unreadable-before-save"), &format!("{} {}", desc, e)); return; }
        Err(p) => { out.oracle(false, "no-panic", &sig(&format!("snapshot-panic:{}", site(&p))), &format!("{} panic={}", desc, p)); return; }
    };
    let b1 = match guarded(|| disk.get_img().to_bytes()) { Ok(b) => b, Err(p) => { out.oracle(false, "no-panic", &sig(&format!("to_bytes-panic:{}", site(&p))), &format!("{} panic={}", desc, p)); return; } };
    let meta1 = match guarded(|| disk.get_img().get_metadata(None)) { Ok(m) => m, Err(p) => { out.oracle(false, "no-panic", &sig(&format!("get_img-panic:{}", site(&p))), &format!("{} panic={}", desc, p)); return; } };
    let mut fails: Vec<(String, String, String)> = Vec::new();
    // what was put is what the object shows (WOZ2 META deletion: an empty value removes the key)
    for (p, want) in &edited {
        let got = super::c09::lookup(&meta1, p);
        let deleted = want.is_empty() && p.len() > 1 && p[1] == "meta";
        if !(got.as_deref() == Some(want.as_str()) || (deleted && got.as_deref().unwrap_or("") == "")) { fails.push(("metadata-put-then-get".into(), sig("metadata-not-read-back-before-save"), format!("/{} want {:?} got {:?}", p.join("/"), want, got))); }
    }
    for hint in [Some(ext_of(cfg.container)), None] {
        let hs = hint.unwrap_or("none");
        let mut d2 = match guarded(|| a2kit::create_fs_from_bytestream(&b1, hint).map_err(|e| e.to_string())) {
            Ok(Ok(d)) => d,
            Ok(Err(e)) => { fails.push(("saved-image-reloads".into(), sig("reload-refused"), format!("hint={} err={}", hs, e))); continue; }
            Err(p) => { fails.push(("saved-image-reloads".into(), sig(&format!("reload-panic:{}", site(&p))), format!("hint={} panic={}", hs, p))); continue; }
        };
        match guarded(|| snapshot(&mut d2, &files)) {
            Ok(Ok(s2)) => {
                for ((k, a), (_, b)) in snap0.iter().zip(s2.iter()) {
                    // "wherever the format records it": IMD does not record the package (3 / 3.5 / 5.25 / 8 inch) — the track
                    // layout part of the kind is compared; 2MG around a sector dump reports the kind of the dump (a size)
                    let lay = |s: &str| s.split(" inch ").last().unwrap_or(s).to_string();
                    let same = if k == "disk-kind" { match cfg.container { "imd" => lay(a) == lay(b), "2mg-do" | "2mg-po" => true, _ => a == b } } else { a == b };
                    if !same { fails.push(("reloaded-volume-same".into(), sig(&format!("{}-differs", k.split(' ').next().unwrap_or(k))), format!("hint={} {}: before {:?} after {:?}", hs, k, a.chars().take(200).collect::<String>(), b.chars().take(200).collect::<String>()))); }
                }
                if s2.len() != snap0.len() { fails.push(("reloaded-volume-same".into(), sig("snapshot-size-differs"), format!("hint={}", hs))); }
            }
            Ok(Err(e)) => fails.push(("reloaded-volume-same".into(), sig("volume-unreadable-after-reload"), format!("hint={} {}", hs, e))),
            Err(p) => { fails.push(("reloaded-volume-same".into(), sig(&format!("reloaded-volume-panic:{}", site(&p))), format!("hint={} panic={}", hs, p))); continue; }
        }
        let meta2 = d2.get_img().get_metadata(None);
        if meta2 != meta1 { fails.push(("metadata-after-reload".into(), sig("metadata-differs-after-reload"), format!("hint={} saved object {} reloaded {}", hs, meta1.chars().take(300).collect::<String>(), meta2.chars().take(300).collect::<String>()))); }
        for (p, want) in &edited {
            let got = super::c09::lookup(&meta2, p);
            let deleted = want.is_empty() && p.len() > 1 && p[1] == "meta";
            if !(got.as_deref() == Some(want.as_str()) || (deleted && got.as_deref().unwrap_or("") == "")) { fails.push(("metadata-after-reload".into(), sig("edited-key-not-read-back-after-reload"), format!("hint={} /{} want {:?} got {:?}", hs, p.join("/"), want, got))); }
        }
        match guarded(|| d2.get_img().to_bytes()) {
            Ok(b2) => if b2 != b1 { fails.push(("reserialize-identical".into(), sig("reloaded-image-serialises-differently"), format!("hint={} {} vs {} bytes, first difference at {:?}", hs, b1.len(), b2.len(), b1.iter().zip(b2.iter()).position(|(a, b)| a != b)))); },
            Err(p) => fails.push(("reserialize-identical".into(), sig(&format!("reserialize-panic:{}", site(&p))), p)),
        }
    }
    // the saved object serialises identically again
    match guarded(|| disk.get_img().to_bytes()) {
        Ok(b3) => if b3 != b1 { fails.push(("second-to_bytes-identical".into(), sig("second-to_bytes-differs"), format!("{} vs {} bytes, first difference at {:?}", b1.len(), b3.len(), b1.iter().zip(b3.iter()).position(|(a, b)| a != b)))); },
        Err(p) => fails.push(("second-to_bytes-identical".into(), sig(&format!("to_bytes-panic:{}", site(&p))), p)),
    }
    // model tie
    if let Some(b0) = before {
        let saved = if cfg.container == "td0" { retrocompressor::td0::expand_slice(&b1).ok().map(|x| { let e = super::c08::mix::td_end(&x).unwrap_or(x.len()); x[..e].to_vec() }) } else { Some(b1.clone()) };
        if let Some(sv) = saved {
            mops.push("mg".into());
            let leafp: Vec<String> = if cfg.container == "td0" { vec!["td0".into(), "comment".into(), "notes".into()] } else { vec!["imd".into(), "comment".into()] };
            mans.push(match super::c09::lookup(&meta1, &leafp) { Some(s) => format!("mg:{}", hx(s.as_bytes())), None => "mg:none".into() });
            mops.push("sv".into());
            mans.push(format!("sv:{}:{}", sv.len(), fnv(&sv)));
            let b0 = if cfg.container == "td0" { let e = super::c08::mix::td_end(&b0).unwrap_or(b0.len()); b0[..e].to_vec() } else { b0 };
            out.q(&format!("c06img {} {} {}", if cfg.container == "td0" { "td0seq" } else { "imdseq" }, hx(&b0), mops.join(";")), &mans.join(";"));
            out.count("c06img:model-tie");
        }
    }
    if fails.is_empty() { out.oracle(true, "edited-image-reloads", "-", &format!("idx={}", idx)); }
    let mut seen = std::collections::BTreeSet::new();
    for (o, s, w) in &fails { if seen.insert((o.clone(), s.clone())) { out.oracle(false, o, s, &format!("{}:: {}", desc, w)); } }
    out.sample(&desc);
    out.count(&format!("c06img:cfg:{}", label));
    out.case(desc.as_bytes(), !files.is_empty() && !edited.is_empty());
}

/// the time stamp the comment block shows now (a block created by the edit carries the current time)
fn disk_stamp(disk: &mut Box<dyn DiskFS>) -> Vec<u8> {
    let meta = disk.get_img().get_metadata(None);
    super::c09::lookup(&meta, &["td0".to_string(), "comment".to_string(), "timestamp".to_string()]).and_then(|s| hex::decode(s).ok()).unwrap_or(vec![0; 6])
}

fn edit_op(container: &str, val: &str, stamp: &[u8]) -> String {
    if container == "td0" { format!("nt:{}:{}", hx(stamp), hx(val.as_bytes())) } else { format!("cm:{}", hx(val.as_bytes())) }
}

/// Directed scenarios: a **write-protected 2MG** (header flags bit 31, set through `put_metadata /2mg/header/flags`).
/// Every modifying operation must be refused by the image layer **and leave the live volume as it was** — also what
/// the file system holds only in memory (DOS VTOC buffer, ProDOS bitmap buffer): the free count, every file;
/// `get_img()` / `to_bytes()` must still work (a dirty buffer that cannot be written back made it panic: finding
/// `refused-write-keeps-buffer`) and the saved bytes must reload to the same volume; after the flag is cleared the same
/// operation is accepted.
fn wp_scenarios(ctx: &mut Ctx, base: usize) {
    let cfgs: [(Fs, &'static str, DiskKind, &'static str); 5] = [
        (Fs::Dos33, "2mg-do", names::A2_DOS33_KIND, "a2-525-16"),
        (Fs::Prodos, "2mg-po", names::A2_800_KIND, "a2-35-800"),
        (Fs::Prodos, "2mg-do", names::A2_DOS33_KIND, "a2-525-16"),
        (Fs::Pascal, "2mg-do", names::A2_DOS33_KIND, "a2-525-16"),
        (Fs::Cpm2, "2mg-do", names::A2_DOS33_KIND, "a2-525-16"),
    ];
    let mut idx = base;
    for (fs, container, kind, kind_name) in cfgs.iter() {
        for op in ["delete", "put", "rename", "lock", "mkdir"] {
            if op == "mkdir" && *fs != Fs::Prodos { continue; }
            if op == "lock" && *fs == Fs::Pascal { continue; }
            let me = idx;
            idx += 1;
            if !ctx.out.wants(me) { continue; }
            let cfg = VolCfg { fs: *fs, container, kind: *kind, kind_name, flat: false };
            let order = &container[4..];
            let sig = |what: &str| format!("c06img/2mg-{}/write-protected/{}-{}/{}", order, op, what, format!("{:?}", fs).to_lowercase());
            let desc = format!("idx={} write-protected-2mg cfg={}/{}/{} op={}", me, format!("{:?}", fs).to_lowercase(), container, kind_name, op);
            let out = &mut ctx.out;
            let mut disk = match guarded(|| make_volume(&cfg)) { Ok(Ok(d)) => d, _ => { out.count("c06img:wp-skipped"); continue; } };
            let (n0, n1, n2, n3) = match fs { Fs::Cpm2 | Fs::Cpm3 | Fs::Fat => ("KEEP.BIN", "VICTIM.BIN", "NEW.BIN", "OTHER.BIN"), Fs::Pascal => ("KEEP.DATA", "VICTIM.DATA", "NEW.DATA", "OTHER.DATA"), _ => ("KEEP", "VICTIM", "NEW", "OTHER") };
            let d0: Vec<u8> = (0..3000).map(|i| (i % 251) as u8).collect();
            let d1: Vec<u8> = (0..1500).map(|i| (i % 13) as u8).collect();
            if !matches!(guarded(|| disk.bsave(n0, &d0, Some(0x2000), None).map_err(|e| e.to_string())), Ok(Ok(_)))
                || !matches!(guarded(|| disk.bsave(n1, &d1, Some(0x2000), None).map_err(|e| e.to_string())), Ok(Ok(_))) { out.count("c06img:wp-skipped"); continue; }
            let files = vec![n0.to_string(), n1.to_string()];
            let snap0 = match guarded(|| snapshot(&mut disk, &files)) { Ok(Ok(s)) => s, _ => { out.count("c06img:wp-skipped"); continue; } };
            let free0 = disk.stat().map(|s| s.free_blocks).unwrap_or(usize::MAX);
            // what a reload of the volume shows before the operation (a reloaded 2MG may name its disk kind differently)
            let reload0 = match guarded(|| { let b = disk.get_img().to_bytes(); a2kit::create_fs_from_bytestream(&b, Some("2mg")).map_err(|e| e.to_string()).and_then(|mut d2| snapshot(&mut d2, &files)) }) { Ok(Ok(s)) => s, _ => { out.count("c06img:wp-skipped"); continue; } };
            let flags = |on: bool| format!("{}{}", if *kind == names::A2_DOS33_KIND { "FE0100" } else { "000000" }, if on { "80" } else { "00" });
            let key: Vec<String> = ["2mg", "header", "flags", "_raw"].iter().map(|s| s.to_string()).collect();
            let set = |d: &mut Box<dyn DiskFS>, on: bool| guarded(|| d.get_img().put_metadata(&key, &json::JsonValue::String(flags(on))).map_err(|e| e.to_string()));
            if !matches!(set(&mut disk, true), Ok(Ok(()))) { out.count("c06img:wp-skipped"); continue; }
            let act = |d: &mut Box<dyn DiskFS>| -> Result<(), String> {
                match op {
                    "delete" => d.delete(n1).map_err(|e| e.to_string()),
                    "put" => d.bsave(n2, &d1, Some(0x2000), None).map(|_| ()).map_err(|e| e.to_string()),
                    "rename" => d.rename(n1, n3).map_err(|e| e.to_string()),
                    "lock" => d.lock(n1).map_err(|e| e.to_string()),
                    _ => d.create("SUBDIR").map_err(|e| e.to_string()),
                }
            };
            // 1. refused
            match guarded(|| act(&mut disk)) {
                Err(p) => { out.oracle(false, "protected-image-refuses", &sig(&format!("panics:{}", site(&p))), &format!("{} panic={}", desc, p)); continue; }
                Ok(Ok(())) => { out.oracle(false, "protected-image-refuses", &sig("accepted"), &desc); continue; }
                Ok(Err(_)) => out.oracle(true, "protected-image-refuses", "", ""),
            }
            // 2. nothing changed in memory either (the free count is read from the buffer)
            let free1 = guarded(|| disk.stat().map(|s| s.free_blocks).unwrap_or(usize::MAX)).unwrap_or(usize::MAX);
            out.oracle(free1 == free0, "refused-write-changes-nothing", &sig("changes-free-count"), &format!("{} free {} -> {}", desc, free0, free1));
            // 3. the image can still be handed out and saved
            let bytes = match guarded(|| disk.get_img().to_bytes()) {
                Ok(b) => { out.oracle(true, "save-after-refused-write", "", ""); b }
                Err(p) => { out.oracle(false, "save-after-refused-write", &sig("then-save-panics"), &format!("{} panic={}", desc, p)); out.case(desc.as_bytes(), true); continue; }
            };
            // 4. the live volume and the reloaded volume are the volume before the operation
            match guarded(|| snapshot(&mut disk, &files)) {
                Ok(Ok(s)) => {
                    let diff = s.iter().zip(snap0.iter()).find(|(a, b)| a != b).map(|(a, b)| format!("{}: {} != {}", a.0, a.1, b.1));
                    out.oracle(diff.is_none(), "refused-write-changes-nothing", &sig("changes-live-volume"), &format!("{} {}", desc, diff.unwrap_or_default()));
                }
                Ok(Err(e)) => out.oracle(false, "refused-write-changes-nothing", &sig("volume-unreadable"), &format!("{} {}", desc, e)),
                Err(p) => out.oracle(false, "refused-write-changes-nothing", &sig(&format!("snapshot-panics:{}", site(&p))), &format!("{} panic={}", desc, p)),
            }
            match guarded(|| a2kit::create_fs_from_bytestream(&bytes, Some("2mg")).map_err(|e| e.to_string())) {
                Ok(Ok(mut d2)) => match guarded(|| snapshot(&mut d2, &files)) {
                    Ok(Ok(s)) => {
                        let diff = s.iter().zip(reload0.iter()).find(|(a, b)| a != b).map(|(a, b)| format!("{}: {} != {}", a.0, a.1, b.1));
                        out.oracle(diff.is_none(), "reload-after-refused-write", &sig("reload-differs"), &format!("{} {}", desc, diff.unwrap_or_default()));
                    }
                    _ => out.oracle(false, "reload-after-refused-write", &sig("reload-unreadable"), &desc),
                },
                _ => out.oracle(false, "reload-after-refused-write", &sig("not-recognised"), &desc),
            }
            // 5. with the flag cleared the operation works
            if matches!(set(&mut disk, false), Ok(Ok(()))) {
                match guarded(|| act(&mut disk)) {
                    Ok(Ok(())) => out.oracle(true, "unprotected-image-accepts", "", ""),
                    Ok(Err(e)) => out.oracle(false, "unprotected-image-accepts", &sig("refused-after-unprotect"), &format!("{} err={}", desc, e)),
                    Err(p) => out.oracle(false, "unprotected-image-accepts", &sig(&format!("panics-after-unprotect:{}", site(&p))), &format!("{} panic={}", desc, p)),
                }
            }
            out.count(&format!("c06img:wp-scenario:{}", op));
            out.case(desc.as_bytes(), true);
        }
    }
}

pub fn run(ctx: &mut Ctx) {
    let mut rng = Rng::new(ctx.seed);
    let cfgs = cfgs(ctx.tier_thorough);
    let rounds = ctx.n(8, 40);
    for round in 0..rounds {
        for (ci, cfg) in cfgs.iter().enumerate() {
            let idx = round * cfgs.len() + ci;
            let mut r = rng.fork(idx as u64);
            if !ctx.out.wants(idx) { continue; }
            if let Err(p) = guarded(|| one_case(ctx, idx, cfg, &mut r)) { ctx.out.oracle(false, "case-completes", &format!("c06img/case-panic:{}", site(&p)), &format!("idx={} panic={}", idx, p)); }
        }
    }
    wp_scenarios(ctx, rounds * cfgs.len());
}
