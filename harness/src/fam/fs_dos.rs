//! DOS 3.x: which variant of the source is the real code?  (companion of `fs.rs::dos_tie`, driver family `fsd`)
//!
//! The concrete model `lean/A2Verif/Model/Fs/Dos3x.lean` carries two pieces of a2kit's DOS 3.x module as written and as
//! repaired (`Repairs`); the real code is probed once per process and the driver is told (`fsd variant <sf> <cg>`), so that
//! the byte-exact tie holds before and after each repair is applied:
//!   sf = slotFirst : `write_file` searches the directory slot and checks for an empty `fs_type` before it reserves the
//!        T/S list sector (`proposed_fixes/dos-put-catalog-full-leak.diff`) — probe: a put without a type byte on a
//!        fresh volume is refused; as written one free sector is lost, repaired the free count is unchanged;
//!   cg = chunkGuard: `put` refuses a chunk longer than 256 bytes (`proposed_fixes/dos-put-oversize-chunk.diff`) —
//!        probe: a put with a 300-byte chunk; as written it is accepted (and truncated), repaired it is an error.
//! `A2V_DOS_VARIANT=10` (sf cg) overrides the probe: for checking that a wrong variant is noticed by the tie.
use super::fs::{Drv, Focus, Verdicts, World};
use crate::util::*;

pub fn variant_bits() -> (bool, bool) {
    use a2kit::fs::{dos3x, DiskFS};
    use a2kit::img;
    static BITS: std::sync::OnceLock<(bool, bool)> = std::sync::OnceLock::new();
    *BITS.get_or_init(|| {
        if let Ok(v) = std::env::var("A2V_DOS_VARIANT") {
            let b: Vec<bool> = v.chars().map(|c| c == '1').collect();
            if b.len() == 2 { return (b[0], b[1]); }
        }
        let mk = || -> Result<dos3x::Disk, String> {
            let img = Box::new(img::dsk_do::DO::create(35, 16));
            let mut d = dos3x::Disk::from_img(img).map_err(|e| e.to_string())?;
            d.init33(254, false).map_err(|e| e.to_string())?;
            Ok(d)
        };
        let sf = guarded(|| -> Result<bool, String> {
            let mut d = mk()?;
            let before = d.stat().map_err(|e| e.to_string())?.free_blocks;
            let mut f = d.new_fimg(None, true, "NOTYPE").map_err(|e| e.to_string())?;
            f.fs_type = vec![];
            f.chunks.insert(0, vec![1; 256]);
            let r = d.put(&f);
            let after = d.stat().map_err(|e| e.to_string())?.free_blocks;
            Ok(r.is_err() && after == before)
        });
        let cg = guarded(|| -> Result<bool, String> {
            let mut d = mk()?;
            let mut f = d.new_fimg(None, true, "LONG").map_err(|e| e.to_string())?;
            f.fs_type = vec![4];
            f.chunks.insert(0, vec![7; 300]);
            Ok(d.put(&f).is_err())
        });
        let b = |r: Result<Result<bool, String>, String>| matches!(r, Ok(Ok(true)));
        (b(sf), b(cg))
    })
}

/// tell the driver which variant of the DOS 3.x source the real code is; to be called after `fs open` (which resets the
/// state of family `fsd`) and before `fsd init`
pub fn send_variant(drv: &mut Drv) {
    let (sf, cg) = variant_bits();
    let _ = drv.ask(&format!("fsd variant {} {}", sf as u8, cg as u8));
}

fn err_tok(e: &str) -> String {
    let t = match e {
        "RANGE ERROR" => "range", "END OF DATA" => "endofdata", "FILE NOT FOUND" => "filenotfound", "VOLUME MISMATCH" => "volumemismatch",
        "I/O ERROR" => "ioerror", "DISK FULL" => "diskfull", "FILE LOCKED" => "filelocked", "FILE TYPE MISMATCH" => "filetypemismatch",
        "WRITE PROTECTED" => "writeprotected", "SYNTAX ERROR" => "syntaxerror", _ => "other",
    };
    format!("err:{}", t)
}

/// The byte-exact tie at the three inputs where the variants of the model differ (the generator of fs.rs reaches a full
/// catalog only now and then, and produces neither a file image without a type byte nor an over-long chunk): on fresh
/// DOS 3.3 volumes (1) put of an image with empty `fs_type`, (2) put of an image with a 300-byte chunk, (3) 105 one-sector
/// files, then one more put; each compared unit for unit by a private driver that was told the probed variant.  Exact
/// before and after the repairs are applied; runs once per process (first DOS history).
pub fn variant_tie(w: &World, vd: &mut Verdicts) {
    use a2kit::fs::{dos3x, DiskFS};
    use a2kit::img;
    static DONE: std::sync::atomic::AtomicBool = std::sync::atomic::AtomicBool::new(false);
    if DONE.swap(true, std::sync::atomic::Ordering::SeqCst) { return; }
    let mut drv = match Drv::spawn() { Some(d) => d, None => { vd.out.count("dos-variant-tie:no-driver"); return; } };
    let v = variant_bits();
    // mirror the saved image into the driver (changed units only)
    fn mirror(drv: &mut Drv, prev: &mut Vec<Vec<u8>>, bytes: &[u8], open: bool) -> Result<(), String> {
        let n = bytes.len() / 256;
        if open {
            let a = drv.ask(&format!("fs open dos33 256 {} -", n)); if a != "ok" { return Err(format!("open: {}", a)); }
            *prev = vec![vec![0u8; 256]; n];
        }
        let mut req = String::from("fs set");
        for i in 0..n {
            let u = &bytes[i * 256..(i + 1) * 256];
            if prev[i] != u { req.push_str(&format!(" {}:{}", i, hx(u))); prev[i] = u.to_vec(); }
            if req.len() > 200_000 { let a = drv.ask(&req); if a != "ok" { return Err(format!("set: {}", a)); } req = String::from("fs set"); }
        }
        if req.len() > 6 { let a = drv.ask(&req); if a != "ok" { return Err(format!("set: {}", a)); } }
        Ok(())
    }
    let fresh = |drv: &mut Drv, prev: &mut Vec<Vec<u8>>| -> Result<dos3x::Disk, String> {
        let img = Box::new(img::dsk_do::DO::create(35, 16));
        let mut d = dos3x::Disk::from_img(img).map_err(|e| e.to_string())?;
        d.init33(254, false).map_err(|e| e.to_string())?;
        mirror(drv, prev, &d.get_img().to_bytes(), true)?;
        send_variant(drv); // after `fs open`, which resets the state of family `fsd`
        let a = drv.ask("fsd init 16 254 ok");
        if a != "ok" { return Err(format!("init: model answered [{}]", a)); }
        Ok(d)
    };
    let hxs = |s: &str| hx(s.as_bytes());
    let r = guarded(|| -> Result<Option<String>, String> {
        let mut prev: Vec<Vec<u8>> = Vec::new();
        // 1: no type byte
        let mut d = fresh(&mut drv, &mut prev)?;
        let mut f = d.new_fimg(None, true, "NOTYPE").map_err(|e| e.to_string())?;
        f.fs_type = vec![];
        f.chunks.insert(0, vec![1; 256]);
        let res = match d.put(&f) { Ok(_) => "ok".to_string(), Err(e) => err_tok(&e.to_string()) };
        mirror(&mut drv, &mut prev, &d.get_img().to_bytes(), false)?;
        let a = drv.ask(&format!("fsd put {} - {} 0:{}", hxs("NOTYPE"), res, hx(&vec![1u8; 256])));
        if a != "ok" { return Ok(Some(format!("put of an image without a type byte (variant {:?}, real {}): model answered [{}]", v, res, a))); }
        // 2: a chunk longer than the chunk length
        let mut d = fresh(&mut drv, &mut prev)?;
        let mut f = d.new_fimg(None, true, "LONG").map_err(|e| e.to_string())?;
        f.fs_type = vec![4];
        let dat: Vec<u8> = (0..300).map(|i| (i % 251) as u8 + 1).collect();
        f.chunks.insert(0, dat.clone());
        let res = match d.put(&f) { Ok(_) => "ok".to_string(), Err(e) => err_tok(&e.to_string()) };
        mirror(&mut drv, &mut prev, &d.get_img().to_bytes(), false)?;
        let a = drv.ask(&format!("fsd put {} 04 {} 0:{}", hxs("LONG"), res, hx(&dat)));
        if a != "ok" { return Ok(Some(format!("put of a 300-byte chunk (variant {:?}, real {}): model answered [{}]", v, res, a))); }
        // 3: a full catalog
        let mut d = fresh(&mut drv, &mut prev)?;
        for i in 0..105 {
            let mut f = d.new_fimg(None, true, &format!("F{}", i)).map_err(|e| e.to_string())?;
            f.fs_type = vec![4];
            f.chunks.insert(0, vec![i as u8; 256]);
            d.put(&f).map_err(|e| format!("filling the catalog: F{}: {}", i, e))?;
        }
        mirror(&mut drv, &mut prev, &d.get_img().to_bytes(), false)?;
        // a no-op request makes the driver adopt the mirrored image (its answer compares the model's own fresh volume: ignored)
        let _ = drv.ask(&format!("fsd delete {} err:filenotfound", hxs("NOSUCH")));
        let mut f = d.new_fimg(None, true, "EXTRA").map_err(|e| e.to_string())?;
        f.fs_type = vec![4];
        f.chunks.insert(0, vec![0xEE; 256]);
        let res = match d.put(&f) { Ok(_) => "ok".to_string(), Err(e) => err_tok(&e.to_string()) };
        mirror(&mut drv, &mut prev, &d.get_img().to_bytes(), false)?;
        let a = drv.ask(&format!("fsd put {} 04 {} 0:{}", hxs("EXTRA"), res, hx(&vec![0xEEu8; 256])));
        if a != "ok" { return Ok(Some(format!("put on a full catalog (variant {:?}, real {}): model answered [{}]", v, res, a))); }
        let free = d.stat().map_err(|e| e.to_string())?.free_blocks;
        let a = drv.ask("fsd free");
        if a != format!("ok {}", free) { return Ok(Some(format!("free count after the refused put on a full catalog (variant {:?}): real {} model [{}]", v, free, a))); }
        Ok(None)
    });
    let hist = w.hist.clone();
    let mut verdict = |pass: bool, detail: &str| {
        for f in [Focus::C01, Focus::C02, Focus::C03, Focus::C05] {
            if pass { vd.v(f, true, "concrete-model", "", &[]); } else { vd.v(f, false, "concrete-model:variant", detail, &hist); }
        }
    };
    match r {
        Ok(Ok(None)) => verdict(true, ""),
        Ok(Ok(Some(why))) => verdict(false, &format!("concrete DOS model disagrees at a variant point: {}", why)),
        Ok(Err(e)) => vd.out.count(&format!("dos-variant-tie-setup-error:{}", e.chars().take(60).collect::<String>().replace(' ', "_"))),
        Err(p) => vd.out.count(&format!("dos-variant-tie-panic:{}", p.chars().take(60).collect::<String>().replace(' ', "_"))),
    }
}
