//! harness family c10 (property C10): every accepted mkdsk configuration yields a valid empty volume; every other
//! configuration is refused with an error and nothing is written.
//!
//! The real `a2kit::commands::mkdsk::mkdsk` is called in-process with `clap::ArgMatches` built by the real CLI
//! definition (`/repo/src/cli.rs` is compiled into this harness as module `a2cli`, the value lists of `--os`, `--kind`,
//! `--type`, `--wrap` are read back from it), under `guarded` (catch_unwind), writing into a private temp directory.
//!
//! Streams (case index `idx` is the position in the concatenation, stable for a given tier):
//!   A  the full cross product os x kind x type x (no wrap | each wrap) x boot, one valid volume argument per OS,
//!      the image type's own extension                                   -- always complete (12 880 today)
//!   B  every volume class x every (os,kind,type,wrap) whose (kind,type,wrap) some OS accepted in A
//!      (quick: boot=false, plus boot=true for the OSes that accepted with boot; thorough: the whole cross product)
//!   C  extension classes on every configuration accepted in A
//!   D  destination already exists: every configuration accepted in A and every 97th refused one
//! For each case: `Q c10 decide …` (model vs implementation: outcome class, file written?, and for accepted ones
//! image type, file system, byte capacity, block size, block count, free blocks as reported after reloading the file),
//! and the direct oracles `c10-no-panic`, `c10-refusal-writes-nothing`, `c10-valid-empty-volume`.
use crate::util::*;
use a2kit::img::DiskKind;
use std::str::FromStr;

#[allow(dead_code)]
#[path = "/repo/src/cli.rs"]
mod a2cli;

thread_local! { static LAST_PANIC_TL: std::cell::RefCell<String> = std::cell::RefCell::new(String::new()); }

/// panic capture per thread (the cases are evaluated by a pool of worker threads)
fn install_tl_hook() {
    std::panic::set_hook(Box::new(|info| {
        let loc = match info.location() { Some(l) => format!("{}:{}", l.file(), l.line()), None => "?".to_string() };
        let msg = if let Some(s) = info.payload().downcast_ref::<&str>() { s.to_string() }
            else if let Some(s) = info.payload().downcast_ref::<String>() { s.clone() } else { "?".to_string() };
        LAST_PANIC_TL.with(|c| *c.borrow_mut() = format!("{} [{}]", loc, msg.replace('\n', " ").replace('\t', " ")));
    }));
}
fn guarded_tl<T>(f: impl FnOnce() -> T) -> Result<T, String> {
    match std::panic::catch_unwind(std::panic::AssertUnwindSafe(f)) {
        Ok(v) => Ok(v),
        Err(_) => Err(LAST_PANIC_TL.with(|c| c.borrow().clone())),
    }
}

/// everything one case emits, in order; produced by a worker, written by the main thread in index order
#[derive(Default)]
struct Emit { class: String, counts: Vec<String>, oracles: Vec<(bool, String, String, String)>, q: (String, String), canon: Vec<u8>, nontrivial: bool, sample: Option<String> }

fn flush(ctx: &mut Ctx, e: &Emit) {
    for k in &e.counts { ctx.out.count(k); }
    for (pass, name, sig, case) in &e.oracles { ctx.out.oracle(*pass, name, sig, case); }
    ctx.out.q(&e.q.0, &e.q.1);
    ctx.out.case(&e.canon, e.nontrivial);
    if let Some(s) = &e.sample { ctx.out.sample(s); }
}

/// evaluate jobs on a pool of threads; results come back in job order
fn par_eval(dir: &std::path::Path, jobs: &[(usize, Cfg, &'static str)]) -> Vec<Emit> {
    let n = jobs.len();
    let next = std::sync::atomic::AtomicUsize::new(0);
    let slots: Vec<std::sync::Mutex<Option<Emit>>> = (0..n).map(|_| std::sync::Mutex::new(None)).collect();
    let threads = std::thread::available_parallelism().map(|x| x.get()).unwrap_or(4).clamp(2, 12);
    std::thread::scope(|sc| {
        for _ in 0..threads {
            sc.spawn(|| loop {
                let i = next.fetch_add(1, std::sync::atomic::Ordering::SeqCst);
                if i >= n { break; }
                let (idx, c, stream) = &jobs[i];
                let e = eval(dir, *idx, c, stream);
                *slots[i].lock().unwrap() = Some(e);
            });
        }
    });
    slots.into_iter().map(|m| m.into_inner().unwrap().expect("job result")).collect()
}

fn values(arg: &str) -> Vec<String> {
    let cli = a2cli::build_cli();
    let sub = cli.find_subcommand("mkdsk").expect("mkdsk subcommand");
    for a in sub.get_arguments() {
        if a.get_id().as_str() == arg {
            return a.get_possible_values().iter().map(|p| p.get_name().to_string()).collect();
        }
    }
    panic!("mkdsk has no argument {}", arg)
}

/// first element of `file_extensions()` of the image type
fn ext_for(typ: &str) -> &'static str {
    match typ { "d13" => "d13", "do" => "do", "po" => "po", "woz1" => "woz", "woz2" => "woz", "imd" => "imd", "img" => "img",
        "2mg" => "2mg", "nib" => "nib", "td0" => "td0", _ => "bin" }
}

fn valid_volume(os: &str) -> Option<&'static str> {
    match os { "dos32" | "dos33" => Some("254"), "prodos" => Some("NEW.DISK"), "pascal" => Some("BLANK"), _ => None }
}

/// volume names / numbers at the edges of the legal ranges of the five file systems
const VOLUMES: [Option<&str>; 34] = [None, Some(""), Some("0"), Some("1"), Some("254"), Some("255"), Some("256"), Some("+1"), Some("007"), Some("-1"),
    Some("A"), Some("ABCDEFG"), Some("ABCDEFGH"), Some("ABCDEFGH.IJK"), Some("ABCDEFGHI.JK"), Some("ABCDEFGH.IJKL"), Some("A.B.C"),
    Some("ABCDEFGHIJK"), Some("ABCDEFGHIJKL"), Some("ABCDEFGHIJKLMNO"), Some("ABCDEFGHIJKLMNOP"), Some("new.disk"),
    Some("NEW_DISK"), Some("NEW DISK"), Some("A:B"), Some("A/B"), Some(".ABC"), Some("1ABC"), Some("\u{c9}A"), Some("A\u{7}B"),
    Some("A*B"), Some("A$B"), Some("A+B"), Some("A#B")];

const EXTS: [&str; 17] = ["2mg", "2img", "dsk", "d13", "do", "nib", "nb2", "po", "woz", "imd", "td0", "img", "ima", "DSK", "Woz", "xyz", ""];

/// What each `--kind` value means, in data bytes (tracks x sides x sectors x sector size; Apple 3.5 inch in 512 byte
/// blocks): written down from the documentation of the media, deliberately not taken from `img/names.rs`.
const SPEC_CAPACITY: [(&str, usize); 23] = [("8in", 256256), ("8in-trs80", 625920), ("8in-nabu", 1018368), ("5.25in", 143360), ("5.25in-ibm-ssdd8", 163840), ("5.25in-ibm-ssdd9", 184320), ("5.25in-ibm-dsdd8", 327680), ("5.25in-ibm-dsdd9", 368640), ("5.25in-ibm-ssqd", 327680), ("5.25in-ibm-dsqd", 655360), ("5.25in-ibm-dshd", 1228800), ("5.25in-kayii", 204800), ("5.25in-kay4", 409600), ("5.25in-osb-sd", 102400), ("5.25in-osb-dd", 204800), ("3.5in", 819200), ("3.5in-ss", 409600), ("3.5in-ds", 819200), ("3.5in-ibm-720", 737280), ("3.5in-ibm-1440", 1474560), ("3.5in-ibm-2880", 2949120), ("3in-amstrad", 184320), ("hdmax", 33553920)];

#[derive(Clone)]
struct Cfg { os: String, kind: String, typ: String, wrap: Option<String>, boot: bool, vol: Option<String>, ext: String, dest_exists: bool }

impl Cfg {
    fn request(&self) -> String {
        format!("c10 decide {} {} {} {} {} {} {} {}", self.os, self.kind, self.typ, self.wrap.clone().unwrap_or("none".to_string()),
            self.boot as u8, match &self.vol { None => "none".to_string(), Some(v) => hx(v.as_bytes()) }, hx(self.ext.as_bytes()), self.dest_exists as u8)
    }
    fn describe(&self, idx: usize) -> String {
        format!("idx={} a2kit mkdsk -o {} -k {} -t {}{}{}{} -d x.{}{}", idx, self.os, self.kind, self.typ,
            match &self.wrap { Some(w) => format!(" -w {}", w), None => String::new() }, if self.boot { " -b" } else { "" },
            match &self.vol { Some(v) => format!(" --volume={:?}", v), None => String::new() }, self.ext,
            if self.dest_exists { " (destination exists)" } else { "" })
    }
}

const MARKER: &[u8] = b"pre-existing destination file, must survive";

/// returns (class, error text or panic site)
fn run_mkdsk(path: &std::path::Path, c: &Cfg) -> (String, String) {
    let _ = std::fs::remove_file(path);
    if c.dest_exists { std::fs::write(path, MARKER).expect("marker"); }
    let mut args: Vec<String> = vec!["a2kit".into(), "mkdsk".into(), "-o".into(), c.os.clone(), "-k".into(), c.kind.clone(), "-t".into(), c.typ.clone(),
        "-d".into(), path.to_string_lossy().to_string()];
    if let Some(w) = &c.wrap { args.push("-w".into()); args.push(w.clone()); }
    if c.boot { args.push("-b".into()); }
    if let Some(v) = &c.vol { args.push(format!("--volume={}", v)); }
    let matches = match a2cli::build_cli().try_get_matches_from(args) { Ok(m) => m, Err(e) => return ("cli".to_string(), e.to_string()) };
    let sub = matches.subcommand_matches("mkdsk").expect("sub").clone();
    let r = guarded_tl(|| a2kit::commands::mkdsk::mkdsk(&sub).map_err(|e| e.to_string()));
    match r { Ok(Ok(())) => ("ok".to_string(), String::new()), Ok(Err(e)) => ("err".to_string(), e), Err(p) => ("panic".to_string(), p) }
}

fn type_name(t: &str) -> &'static str {
    match t { "d13" => "D13", "do" => "DO", "po" => "PO", "img" => "IMG", "woz1" => "WOZ1", "woz2" => "WOZ2", "imd" => "IMD", "2mg" => "DOT2MG", "nib" => "NIB", "td0" => "TD0", _ => "?" }
}
fn fs_short(n: &str) -> &'static str {
    match n { "a2 dos" => "dos", "prodos" => "prodos", "a2 pascal" => "pascal", "cpm" => "cpm", "fat" => "fat", _ => "?" }
}
fn fs_of_os(os: &str) -> &'static str {
    match os { "dos32" | "dos33" => "dos", "prodos" => "prodos", "pascal" => "pascal", "cpm2" | "cpm3" => "cpm", "fat" => "fat", _ => "?" }
}

/// geometry of a disk kind: (512-byte data blocks, description); kinds with the same geometry differ at most in the
/// form-factor tag (3 inch vs 5.25 inch) or in being a logical block device of the same size
fn geometry(k: &DiskKind) -> (usize, String) {
    match k {
        DiskKind::Unknown => (0, "unknown".to_string()),
        DiskKind::LogicalBlocks(_) => {
            let s = k.to_string();
            let n: usize = s.split_whitespace().filter_map(|w| w.parse().ok()).next().unwrap_or(0);
            (n, format!("{} blocks", n))
        }
        DiskKind::LogicalSectors(l) | DiskKind::D3(l) | DiskKind::D35(l) | DiskKind::D525(l) | DiskKind::D8(l) => {
            let s = l.to_string();
            let ssz: usize = s.rsplit('/').next().and_then(|x| x.parse().ok()).unwrap_or(1);
            let cap = if ssz == 524 { l.byte_capacity() / 524 * 512 } else { l.byte_capacity() };
            (cap / 512, format!("{} tracks {} sides {} zones {} bytes {}", l.track_count(), l.sides(), l.zones(), l.byte_capacity(), s))
        }
    }
}

struct Reload { answer: String, problems: Vec<String> }

/// reload the written file and state the property directly
fn check_volume(path: &std::path::Path, c: &Cfg, out: &mut Emit) -> Reload {
    let p = path.to_string_lossy().to_string();
    let mut problems: Vec<String> = Vec::new();
    let c2 = c.clone();
    let r = guarded_tl(|| -> Result<(String, Vec<String>, Vec<String>), String> {
        let mut probs: Vec<String> = Vec::new();
        let mut counts: Vec<String> = Vec::new();
        let mut d = a2kit::create_fs_from_file(&p).map_err(|e| format!("reload-failed ({})", e))?;
        let st = d.stat().map_err(|e| format!("stat-failed ({})", e))?;
        let cat = d.catalog_to_vec("/").map_err(|e| format!("catalog-failed ({})", e))?;
        let (typ, kind, cap) = { let img = d.get_img(); (img.what_am_i().to_string(), img.kind(), img.byte_capacity()) };
        let total = st.block_end - st.block_beg;
        let answer = format!("type={} fs={} cap={} bs={} total={} free={}", type_name(&typ), fs_short(&st.fs_name), cap, st.block_size, total, st.free_blocks);
        if typ != c2.typ { probs.push(format!("reload-type-differs ({})", typ)); }
        if fs_short(&st.fs_name) != fs_of_os(&c2.os) { probs.push(format!("reload-fs-differs ({})", st.fs_name)); }
        // the capacity the `--kind` value stands for (DOS 3.2 uses the 13 sector form of the 5.25 inch disk; a WOZ reports
        // the 16 sector figure for it)
        let spec = SPEC_CAPACITY.iter().find(|x| x.0 == c2.kind).map(|x| x.1);
        let cap_ok = match spec {
            None => false,
            Some(sc) => if c2.os == "dos32" && c2.kind == "5.25in" { cap == 35 * 13 * 256 || ((typ == "woz1" || typ == "woz2") && cap == sc) } else { cap == sc } };
        if !cap_ok { probs.push(format!("reload-capacity-differs ({} bytes, the kind stands for {:?})", cap, spec)); }
        // the disk kind
        let mut want = DiskKind::from_str(&c2.kind).map_err(|_| "kind-unparsable".to_string())?;
        if c2.os == "dos32" && want == a2kit::img::names::A2_DOS33_KIND { want = a2kit::img::names::A2_DOS32_KIND; }
        if kind == want { counts.push("kind:exact".to_string()); }
        else {
            let (gw, dw) = geometry(&want);
            let (gk, dk) = geometry(&kind);
            let logical = matches!(kind, DiskKind::LogicalBlocks(_)) || matches!(want, DiskKind::LogicalBlocks(_));
            if logical && gw == gk && gw > 0 { counts.push("kind:same-size-block-device".to_string()); }
            else if !logical && dw == dk { counts.push("kind:same-layout-other-form-factor".to_string()); }
            else { probs.push(format!("reload-kind-differs (wanted {} / {}, got {} / {})", want, dw, kind, dk)); }
        }
        if !cat.is_empty() { probs.push(format!("catalog-not-empty ({} rows)", cat.len())); }
        // free space consistent with the capacity: not more than there is, and at least 70% of the medium
        if st.free_blocks > total || total * st.block_size > cap || st.free_blocks * st.block_size * 100 < cap * 70 {
            probs.push(format!("free-inconsistent (free {} of {} blocks of {} bytes, capacity {})", st.free_blocks, total, st.block_size, cap));
        }
        // the figure each formatter must arrive at: DOS 3.x keeps track 0, the catalog track and (bootable) two more
        // tracks; ProDOS keeps 2 boot + 4 directory blocks + the bitmap; Pascal keeps 6 blocks; CP/M keeps at most the
        // 16 blocks of AL0/AL1; FAT clusters are all data
        let fs = fs_short(&st.fs_name);
        let exact_ok = match fs {
            "dos" => st.free_blocks == (35 - 2 - if c2.boot { 2 } else { 0 }) * (total / 35),
            "prodos" => st.free_blocks + 6 + 1 + total / 4096 == total,
            "pascal" => st.free_blocks + 6 == total,
            "cpm" => st.free_blocks < total && st.free_blocks + 16 >= total,
            "fat" => st.free_blocks == total,
            _ => false };
        if !exact_ok { probs.push(format!("free-inconsistent (free {} of {} blocks is not the figure for an empty {} volume)", st.free_blocks, total, fs)); }
        // the label
        if let Some(v) = &c2.vol {
            let expect_label = match c2.os.as_str() { "dos32" | "dos33" => u8::from_str_radix(v, 10).ok().map(|x| x.to_string()), "prodos" | "pascal" => Some(v.to_uppercase()),
                "cpm3" | "fat" if !v.is_empty() => Some(v.to_uppercase()), _ => None };
            if let Some(l) = expect_label { if st.label.to_uppercase() != l { probs.push(format!("label-differs ({:?} for {:?})", st.label, v)); } }
        }
        // a first file
        let data: Vec<u8> = (0..300u32).map(|i| (i * 7 + 3) as u8).collect();
        match d.bsave("HELLO", &data, Some(768), None) {
            Err(e) => probs.push(format!("first-file-refused ({})", e)),
            Ok(_) => {
                a2kit::save_img(&mut d, &p).map_err(|e| format!("save-failed ({})", e))?;
                let mut d2 = a2kit::create_fs_from_file(&p).map_err(|e| format!("reload-after-put-failed ({})", e))?;
                match d2.bload("HELLO") {
                    Err(e) => probs.push(format!("first-file-lost ({})", e)),
                    Ok((_, got)) => {
                        if !(got.len() >= data.len() && got[0..data.len()] == data[..] && got.len() < data.len() + st.block_size.max(128)) {
                            probs.push(format!("first-file-differs (got {} bytes)", got.len()));
                        }
                    }
                }
                let cat2 = d2.catalog_to_vec("/").map_err(|e| format!("catalog-after-put-failed ({})", e))?;
                if cat2.len() != 1 { probs.push(format!("catalog-after-put ({} rows)", cat2.len())); }
                let st2 = d2.stat().map_err(|e| format!("stat-after-put-failed ({})", e))?;
                if st2.free_blocks >= st.free_blocks { probs.push("free-not-reduced-by-put".to_string()); }
            }
        }
        Ok((answer, probs, counts))
    });
    let answer = match r {
        Ok(Ok((a, probs, counts))) => { for k in counts { out.counts.push(k); } problems.extend(probs); a }
        Ok(Err(e)) => { problems.push(e.clone()); e.split(' ').next().unwrap_or("reload-failed").to_string() }
        Err(pn) => { problems.push(format!("reload-panic ({})", pn)); "reload-panic".to_string() }
    };
    Reload { answer, problems }
}

fn eval(dir: &std::path::Path, idx: usize, c: &Cfg, stream: &str) -> Emit {
    let mut em = Emit::default();
    let path = dir.join(format!("c{}.{}", idx, c.ext));
    let (class, detail) = run_mkdsk(&path, c);
    let exists = path.exists();
    let untouched = c.dest_exists && std::fs::read(&path).map(|b| b == MARKER).unwrap_or(false);
    let wrote = if c.dest_exists { !untouched } else { exists };
    let case = c.describe(idx);
    em.counts.push(format!("{}:{}", stream, class));
    // direct oracles
    // panic site without the checkout prefix and the line number, so that it can serve as a finding key
    let site = panic_site(&detail);
    let site = site.rsplit_once(':').map(|x| x.0.to_string()).unwrap_or(site);
    let site = match site.find("/src/") { Some(i) => site[i + 1..].to_string(), None => site };
    em.oracles.push((class != "panic", "c10-no-panic".into(), format!("c10/panic/{}", site), format!("{} => panic {}", case, detail)));
    if class != "ok" {
        em.oracles.push((!wrote, "c10-refusal-writes-nothing".into(), format!("c10/{}/{}/{}/file-written-on-refusal", c.os, c.kind, c.typ), format!("{} => {} but the destination was written", case, class)));
    }
    let mut answer = format!("{} {}", class, if wrote { "wrote" } else { "nowrite" });
    if class == "ok" {
        if !wrote {
            em.oracles.push((false, "c10-valid-empty-volume".into(), format!("c10/{}/{}/{}/no-file", c.os, c.kind, c.typ), format!("{} => ok but no file", case)));
        } else {
            let rl = check_volume(&path, c, &mut em);
            answer = format!("{} {}", answer, rl.answer);
            if rl.problems.is_empty() {
                em.oracles.push((true, "c10-valid-empty-volume".into(), "-".into(), case.clone()));
            }
            for p in &rl.problems {
                let what = p.split(' ').next().unwrap_or("problem");
                em.oracles.push((false, "c10-valid-empty-volume".into(), format!("c10/{}/{}/{}/{}", c.os, c.kind, c.typ, what), format!("{} => {}", case, p)));
            }
        }
    }
    let _ = std::fs::remove_file(&path);
    em.q = (c.request(), answer.clone());
    em.canon = c.request().into_bytes();
    em.nontrivial = class == "ok" || c.vol.is_some() || stream != "A";
    if class == "ok" && stream == "A" { em.sample = Some(format!("{} => {}", case, answer)); }
    em.class = class;
    em
}

pub fn run(ctx: &mut Ctx) {
    let oses = values("os"); let kinds = values("kind"); let types = values("type"); let wraps = values("wrap");
    let dir = std::env::temp_dir().join(format!("a2v-c10-{}-{}", std::process::id(), ctx.seed));
    std::fs::create_dir_all(&dir).expect("temp dir");
    let mut wl: Vec<Option<String>> = vec![None]; for w in &wraps { wl.push(Some(w.clone())); }
    let thorough = ctx.tier_thorough;
    let mut idx = 0usize;
    // results of stream A, needed to build B, C, D
    let mut accepted: Vec<Cfg> = Vec::new();
    let mut refused: Vec<Cfg> = Vec::new();
    let mut live_triples: std::collections::BTreeSet<(String, String, String)> = std::collections::BTreeSet::new();
    let mut boot_os: std::collections::BTreeSet<String> = std::collections::BTreeSet::new();

    install_tl_hook();
    // ---- A: the complete cross product
    let mut jobs: Vec<(usize, Cfg, &'static str)> = Vec::new();
    for os in &oses { for kind in &kinds { for typ in &types { for wrap in &wl { for boot in [false, true] {
        let c = Cfg { os: os.clone(), kind: kind.clone(), typ: typ.clone(), wrap: wrap.clone(), boot, vol: valid_volume(os).map(|s| s.to_string()),
            ext: ext_for(typ).to_string(), dest_exists: false };
        idx += 1;
        jobs.push((idx, c, "A"));
    }}}}}
    // the later streams depend on what A found, so a replay of a later index still evaluates A (silently)
    let res = par_eval(&dir, &jobs);
    for ((i, c, _), e) in jobs.iter().zip(res.iter()) {
        if ctx.out.wants(*i) { flush(ctx, e); }
        if e.class == "ok" {
            accepted.push(c.clone());
            live_triples.insert((c.kind.clone(), c.typ.clone(), c.wrap.clone().unwrap_or_default()));
            if c.boot { boot_os.insert(c.os.clone()); }
        } else if !c.boot { refused.push(c.clone()); }
    }
    ctx.out.count_n("A:configurations", idx as u64);
    ctx.out.count_n("A:complete-cross-product", 1);
    // ---- B: volume classes
    let mut jobs: Vec<(usize, Cfg, &'static str)> = Vec::new();
    for os in &oses { for kind in &kinds { for typ in &types { for wrap in &wl {
        let live = live_triples.contains(&(kind.clone(), typ.clone(), wrap.clone().unwrap_or_default()));
        if !live && !thorough { continue; }
        for boot in [false, true] {
            if boot && !thorough && !boot_os.contains(os) { continue; }
            for v in VOLUMES.iter() {
                idx += 1;
                if !ctx.out.wants(idx) { continue; }
                let c = Cfg { os: os.clone(), kind: kind.clone(), typ: typ.clone(), wrap: wrap.clone(), boot, vol: v.map(|s| s.to_string()), ext: ext_for(typ).to_string(), dest_exists: false };
                jobs.push((idx, c, "B"));
            }
        }
    }}}}
    // ---- C: extension classes on accepted configurations
    for c0 in &accepted { for e in EXTS.iter() {
        idx += 1;
        if !ctx.out.wants(idx) { continue; }
        let mut c = c0.clone(); c.ext = e.to_string();
        jobs.push((idx, c, "C"));
    }}
    // ---- D: destination exists
    for (i, c0) in accepted.iter().chain(refused.iter()).enumerate() {
        if i >= accepted.len() && (i - accepted.len()) % 97 != 0 { continue; }
        idx += 1;
        if !ctx.out.wants(idx) { continue; }
        let mut c = c0.clone(); c.dest_exists = true;
        jobs.push((idx, c, "D"));
    }
    for chunk in jobs.chunks(20000) {
        let res = par_eval(&dir, chunk);
        for e in &res { flush(ctx, e); }
    }
    ctx.out.count_n("total-cases", idx as u64);
    let _ = std::fs::remove_dir_all(&dir);
}
