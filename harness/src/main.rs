//! a2v: correspondence + direct-oracle harness.  `a2v <family> <quick|thorough> <seed> <outfile> [--only <idx>]`
mod util;
mod fam;
use util::*;

fn main() {
    let args: Vec<String> = std::env::args().collect();
    if args.len() < 5 {
        eprintln!("usage: a2v <family> <quick|thorough> <seed> <outfile> [--only <idx>]");
        std::process::exit(2);
    }
    let only = match args.iter().position(|a| a == "--only") { Some(i) => args.get(i + 1).and_then(|s| s.parse().ok()), None => None };
    install_panic_hook();
    let mut ctx = Ctx { tier_thorough: args[2] == "thorough", seed: args[3].parse().unwrap_or(0), out: Out::new(&args[4], only) };
    if !fam::run(&args[1], &mut ctx) {
        eprintln!("unknown family {}", args[1]);
        std::process::exit(2);
    }
    ctx.out.finish();
}
