/* LD_PRELOAD interposer: pins the wall clock so that timestamps written by a2kit
   (ProDOS/Pascal/CP-M/FAT entries, FAT volume id, IMD header, TD0 comment) are reproducible.
   A2KIT_VERIF_TIME=<unix seconds>; only CLOCK_REALTIME is pinned (monotonic clocks run freely). */
#define _GNU_SOURCE
#include <time.h>
#include <sys/time.h>
#include <stdlib.h>
#include <dlfcn.h>

static long fixed_time(void) {
    const char *s = getenv("A2KIT_VERIF_TIME");
    return s ? atol(s) : -1;
}

int clock_gettime(clockid_t clk, struct timespec *ts) {
    static int (*real)(clockid_t, struct timespec *) = 0;
    if (!real) real = dlsym(RTLD_NEXT, "clock_gettime");
    long t = fixed_time();
    if (t >= 0 && (clk == CLOCK_REALTIME || clk == CLOCK_REALTIME_COARSE)) {
        ts->tv_sec = t; ts->tv_nsec = 0; return 0;
    }
    return real(clk, ts);
}

time_t time(time_t *out) {
    long t = fixed_time();
    if (t >= 0) { if (out) *out = t; return t; }
    struct timespec ts; clock_gettime(CLOCK_REALTIME, &ts);
    if (out) *out = ts.tv_sec;
    return ts.tv_sec;
}

int gettimeofday(struct timeval *tv, void *tz) {
    struct timespec ts; clock_gettime(CLOCK_REALTIME, &ts);
    if (tv) { tv->tv_sec = ts.tv_sec; tv->tv_usec = ts.tv_nsec / 1000; }
    return 0;
}
